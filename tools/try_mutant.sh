#!/bin/bash
# usage: try_mutant.sh <dir with patch.diff> <property id>...
# applies the patch to /repo, runs the quick check of each property, restores /repo.
D=$(readlink -f "$1"); shift
cd /verif
git -C /repo diff --quiet || { echo "/repo is dirty"; exit 3; }
git -C /repo apply "$D/patch.diff" || exit 3
for p in "$@"; do
  timeout 2400 ./check $p --tier quick > /tmp/try_$p.log 2>&1; rc=$?
  echo "$p rc=$rc $(grep -c '^VIOLATION' /tmp/try_$p.log) violation line(s): $(grep -A1 '^VIOLATION' /tmp/try_$p.log | grep -v '^VIOLATION\|^--' | head -2 | cut -c1-220 | tr '\n' '|')"
  [ $rc -ne 1 ] && tail -3 /tmp/try_$p.log | cut -c1-300
done
git -C /repo checkout -- .
git -C /verif checkout -- evidence 2>/dev/null
