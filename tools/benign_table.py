#!/opt/veriftools/pyvenv/bin/python3
"""regenerate benign/README.md from the meta.json files"""
import glob, json, os
V = os.path.dirname(os.path.dirname(os.path.abspath(__file__)))
rows = []
for f in sorted(glob.glob(os.path.join(V, 'benign', '*', 'meta.json'))):
    m = json.load(open(f))
    res = []
    for p, d in sorted(m.get('results', {}).items()):
        res.append("%s: %s (%ds)%s" % (p, 'quiet' if d['exit'] == 0 else ('FALSE ALARM' if d['exit'] == 1 else 'inconclusive (exit %d)' % d['exit']), d.get('seconds', 0),
                                       (' — ' + d['first_line'][:160]) if d.get('first_line') and d['exit'] != 0 else ''))
    rows.append("| %s | %s | %s |" % (m['id'], m['change'].replace('|', '\\|'), '<br>'.join(res).replace('|', '\\|')))
out = ["# Behaviour-preserving changes (false-alarm test)", "",
       "Each directory holds `patch.diff` and the author's `notes.md`. Authors were sub-agents asked for refactorings / harmless variations that keep the observable contract;",
       "they saw only the contract text and a scratch worktree. `equiv_graph.rs` / `equiv_values.rs` are their equivalence harnesses (digest of random call sequences resp. exhaustive small inputs,",
       "identical with and without each change). `tools/benign_run.sh <id>` applies a change to /repo, runs the quick checks of the properties it touches and restores /repo.",
       "A check must stay quiet (exit 0); exit 1 would be a false alarm; exit 2 means the run was inconclusive (here: an obligation exceeded its time limit).", "",
       "| id | change | result (quick tier) |", "|---|---|---|"] + rows + [""]
open(os.path.join(V, 'benign', 'README.md'), 'w').write('\n'.join(out))
print(len(rows), "benign changes")
