#!/bin/bash
# usage: benign_run.sh [<id>...]: applies each behaviour-preserving change to /repo and runs the quick checks of the
# properties it touches; every check must exit 0 (an exit 1 is a FALSE ALARM, an exit 2 an inconclusive run)
cd "$(dirname "$0")/.."
V=$(pwd)
R=${VERIF_REPO:-/repo}
[ $# -eq 0 ] && set -- $(ls benign | grep '^B')
for s in "$@"; do
  d=benign/$s
  git -C $R diff --quiet || { echo "/repo is dirty"; exit 3; }
  git -C $R apply $V/$d/patch.diff || { echo "$s: patch does not apply"; continue; }
  for p in $(python3-vt -c "import json; print(' '.join(json.load(open('$d/meta.json'))['preserves']))"); do
    t0=$(date +%s); timeout 3000 ./check $p --tier quick > /tmp/benign_${s}_$p.log 2>&1; rc=$?
    line=$(grep -A1 '^VIOLATION\|^INCONCLUSIVE' /tmp/benign_${s}_$p.log | head -2 | tr '\n' ' ' | cut -c1-300)
    python3-vt - "$d/meta.json" "$p" "$rc" "$line" "$(( $(date +%s) - t0 ))" <<'PY'
import json, sys
f, p, rc, line, secs = sys.argv[1:6]
m = json.load(open(f)); m.setdefault('results', {})[p] = dict(cmd="./check %s --tier quick" % p, exit=int(rc), quiet=(int(rc) == 0), first_line=line.strip(), seconds=int(secs))
json.dump(m, open(f, 'w'), indent=1)
PY
    echo "$s $p rc=$rc ${line}"
  done
  git -C $R checkout -- .
done
git -C $V checkout -- evidence 2>/dev/null
