#!/opt/veriftools/pyvenv/bin/python3
"""regenerate /verif/MANIFEST.json from the tables below (kept next to the checks so they cannot drift)"""
import json, os, subprocess, sys
V = os.path.dirname(os.path.dirname(os.path.abspath(__file__)))
props = [json.loads(l) for l in open(os.path.join(V, 'properties.jsonl'))]
hook = subprocess.run(['git', '-C', '/repo', 'log', '--format=%h', '--grep=^verif:'], stdout=subprocess.PIPE, text=True).stdout.split()

S_NOTE = ("Trusted base: rustc's LLVM IR is what users run (dev-like profile: opt-level 2, debug assertions, overflow checks, panic=abort); "
          "the IR executor /verif/seir (cross-checked against native runs: every counterexample is replayed natively before it is reported); z3. "
          "Assumes: allocator never fails; log filter Off; uninitialised padding inside the arenas is modelled as arbitrary initialised bytes; "
          "pre-states are ALL states satisfying the representation invariant Inv (DESIGN.md section 3), for the stated configurations only.")
S_TECH = "symbolic execution of rustc's LLVM IR (own executor) + z3 (QF_BV): one inductive step from an arbitrary Inv state"

CHECKS = {
    'C01': ("model_checking", "Inductive step: from every state satisfying Inv, every operation with symbolic arguments satisfies the safety step relation "
            "(solver verdict over all states/arguments within the configurations (N,cap) in {(1,3),(2,4)} quick, +(3,5),(2,6) thorough; 16 slots x 16 members symbolic). "
            "Histories of any length follow by induction because Inv is re-established by every step (C02's obligations).", "4 C01"),
    'C02': ("model_checking", "Refinement of an abstract transition relation written in z3, plus preservation of Inv (counter == recount of unread members; member lists == tags) "
            "and absence of panics within the limits, one step from every Inv state; counterexamples replayed natively against an executable reference model.", "4 C02"),
    'C03': ("model_checking", "One step from every Inv state with symbolic label (all three variants) and symbolic datum (inline 0..8 with arbitrary padding, heap 9 and 10 bytes): "
            "what put/bind write is what data/kid/kids (the real functions, run on the symbolic post-state) return; every other cell is unchanged.", "4 C03"),
    'C04': ("model_checking", "add(v) from every Inv state, absent slots carrying arbitrary stale edges/data: blank or no-op; all other cells of the three stores unchanged.", "4 C04"),
    'C05': ("model_checking", "next_id() from every Inv state with an absent id at or above the allocator position: fresh, below capacity, position advances; without the precondition it panics.", "4 C05"),
    'C06': ("model_checking", "Inductive argument over the slot table: Inv ties slot occupancy to tags; collection empties slot and counter; bind of two ungrouped vertices takes a "
            "previously empty slot for every one of the 2^14 occupancy patterns (over-approximated pre-state); no other call changes occupancy. Hence any number of create-put-read cycles.", "4 C06"),
    'C07': ("model_checking", "Every operation with UNCONSTRAINED (64-bit) ids and arbitrary labels/data from every Inv state, on the IR compiled with debug assertions: each symbolic path must end in "
            "return or panic; the executor's memory model (per-allocation bounds, liveness, dealloc layout, initialisation tracking) turns any other end into a counterexample. A returning path "
            "implies the id is below the capacity and the label fits; an (N+1)-th label and a 17th member must panic; no panic within the limits. Concrete lifecycles check alloc/dealloc pairing.", "4 C07"),
    'C08': ("model_checking", "save() and load() executed on the LLVM IR incl. serde derive, bincode, the visitors of emap/micromap/microstack, hashbrown (inside emap's visitor) and core/alloc/std (-Zbuild-std), "
            "std::fs replaced by an in-memory file. The structure that drives the serializer (group tags, member lists, persistence) is a task per structure; edge counts, data representation/length/bytes and label "
            "payloads are symbolic. The loaded graph's abstract state must equal the original's, the allocator position be at or below the lowest absent id, the original be byte-identical, the returned size the image size.", "4 C08"),
    'C09': ("model_checking", "Same IR; the file handed to load() is the saved image cut at a SYMBOLIC length k < size (stub of std::fs::read): every path of load() -- one per read site of the deserializer -- must end in Err: "
            "no Ok, no panic, no memory error. Payload bytes symbolic, structure per task.", "4 C09"),
    'C10': ("model_checking", "clone() from every Inv state: every abstract field of the copy equals the original's (data decoded by the real Hex::bytes), the copy lives in allocations made by the call "
            "(arenas and every heap datum), the original is byte-identical afterwards. Equal futures follow from the functional step relation (C19), independence from the frame clauses.", "4 C10"),
    'C17': ("model_checking", "The real Label::from_str and Display, executed together with the IR of core::str/core::num/core::fmt/alloc::string (-Zbuild-std), on symbolic texts: the shape (UTF-8 length class "
            "per character) is fixed per run, every character ranges over ALL scalar values of its class except U+0020. parse-then-print, must-reject, print-then-parse (Greek, Str, Alpha). "
            "Bounds on decimal indices are stated in the evidence (bit-blasted decimal arithmetic is the limit).", "4 C17"),
    'C18': ("model_checking", "to_xml() and to_dot() executed on the LLVM IR incl. xml-builder, itertools' sort, core::fmt, alloc::string (-Zbuild-std). The structure of the graph is a task (two vertex slots, nine shapes "
            "each: absent clean / absent with stale datum and edge / present with and without edges / empty, inline and heap data, read or unread); labels, edge targets and data bytes are symbolic. The text of a path is tokenised under "
            "one model and every byte outside the payload spans is proved fixed by the solver; then: one node per present vertex in ascending order, none for absent ids; per vertex exactly its edges (label text, target) and its data iff it has data.", "4 C18"),
    'C20': ("model_checking", "inspect(v), Debug and v_print(v) executed on the LLVM IR (-Zbuild-std: core::fmt, itertools sort, hashbrown for inspect's HashSet with concrete keys). Edge structure (six shapes incl. cycles, shared targets, "
            "an unreachable vertex) and data shapes are a task; labels and data bytes symbolic. Text tokenised under one model, every byte outside the payload proved fixed; inspect: terminates, multiset of printed edges = edges of the reachable "
            "vertices (symbolic label equalities); Debug: exactly the present vertices with edges and data; v_print: data marker iff data, exactly the labels.", "4 C20"),
    'C11': ("model_checking", "merge() executed on the LLVM IR (-Zbuild-std: std's HashMap/HashSet with hashbrown on concrete ids, the recursive descent, the real put/bind/add/next_id/kid/kids). Two graphs live in one symbolic state. The structure of both "
            "(present ids, edge targets: trees of up to 3 vertices with out-degree <= 2 on arbitrary ids, data placement and representation, group structure, the left graph's allocator position) is a task; ALL labels of both graphs and all data bytes are symbolic, "
            "so the real code forks on every comparison of a right label with the labels of the left vertex it is mapped to: every overlap pattern of the two trees is a path. Per path: Ok; the right-to-left mapping followed along the labels in the post-state exists, "
            "is injective, maps onto vertices carrying the same data; every old vertex, edge and undemanded datum is still there; every edge afterwards is old or demanded; exactly the demanded vertices were created under absent ids; Inv (counter == recount) holds again "
            "(so later reads collect as C01/C02 say); the right graph is byte-identical.", "4 C11"),
    'C12': ("model_checking", "Same machinery; the right graph is a tree plus a detached tree of one or two present vertices that `right` does not reach: every path of merge() must return Err (never Ok), and the error text (anyhow + format!, executed) must name exactly the missed vertices; "
            "the right graph is byte-identical. Labels and data symbolic, structures per task.", "4 C12"),
    'C14': ("model_checking", "Script::from_str(text).deploy_to(g) executed on the LLVM IR together with the regex crates (regex, regex-automata, regex-syntax, aho-corasick, memchr: the four patterns are compiled and matched by the real code inside the executor, "
            "1.3 to 2.4 million IR instructions per run). A task fixes a program within the limits and ONE rendering (white space, comments, nu-prefixes, $variables, hex case/separators, optional last semicolon; seeded generator); the solver decides over the symbolic bytes inside it: "
            "every label character (upper-case letters / all other printable ASCII but the structural characters; a symbolic two-byte character; symbolic decimal digits after alpha), every hex digit within its range, white-space characters over {space, tab, LF, CR}. "
            "The same pre-state receives the corresponding add/bind/put/next_id calls with labels and data built from the same variables: abstract post-states equal for all values, count == number of commands. "
            "Single fault: one ASCII byte of a concrete rendering ranges over every other ASCII value; no path may panic on a malformed witness or within the limits, malformed witnesses return Err on the whole path with the post-state of the commands before the fault (the allocator position may have advanced).", "4 C14"),
    'C13': ("model_checking", "slice(v) and slice_some(v, p) executed on the LLVM IR (-Zbuild-std: std's HashSet/hashbrown with concrete keys, emap's iterator, the real empty/add/bind). The edge structure of the source (targets per vertex) "
            "is a task -- quick: ALL 343 structures of three vertices with up to two edges each plus 45 of four vertices; labels, data and the predicate are symbolic: the external symbol the closure forwards to answers with one solver variable per "
            "source edge, the real code branches on it. Every path: Ok; present vertices of the result == closure of v under accepted edges (a fixpoint formula over the predicate variables); every accepted edge between kept vertices is there; "
            "no edge the source lacks; Inv holds for the result; the source is byte-identical; the call returns on cyclic structures.", "4 C13"),
    'C19': ("model_checking", "Each configuration is shown to refine ONE functional step relation that mentions neither N nor the capacity (results, kids() order, next_id() = first absent id at or above the "
            "position, post-state up to the name of a new group's slot); two configurations that agree on the abstract state therefore agree on every answer. The executor reports ordering "
            "comparisons between pointers into different allocations (address-dependent behaviour); none occurs. merge/slice under arbitrary hash seeds are outside the claim.", "4 C19"),
}
T_NOTE = S_NOTE + " C17 additionally: built with the sandbox's nightly toolchain and -Zbuild-std (the IR of core/alloc/std is needed), getenv() returns NULL."

K_NOTE = ("Trusted base: Kani 0.68 (MIR -> GOTO translation, its pinned nightly toolchain) and CBMC 6.11 with CaDiCaL; unwinding assertions on. "
          "Stubs: alloc::fmt::format and std::backtrace::Backtrace::capture in the numeric-conversion harnesses (error text is not part of the property). "
          "Outside the claim: byte strings longer than 10 bytes (9 per concat operand), Hex::Bytes(_, len>8). C15's print/from_str clause runs on engine S (own IR executor + z3, nightly -Zbuild-std IR).")
K_TECH = "Kani proof harnesses over kani::any() inputs, decided by CBMC/CaDiCaL (bounded: unwind 12, unwinding assertions); C15's print/parse clause: symbolic execution of the LLVM IR + z3"
KCHECKS = {
    'C15': ("model_checking", "Bounded model checking of the compiled Hex code for ALL byte strings of 0..=10 bytes in both representations (inline with arbitrary padding, heap), "
            "every index and every bound of the six range kinds as unconstrained usize: ok-harnesses compare with the byte slice, panic-harnesses show every path panics exactly "
            "when the slice index would. Equality across representations; i64/f64 conversions bit-exact, Err iff length != 8. The clause from_str(print(h)) == h, which Kani cannot finish for a single byte, "
            "is decided by engine S on the LLVM IR incl. core::fmt (-Zbuild-std): every byte symbolic up to 5 bytes, windows of four symbolic bytes for 6..=8 (quick) / 6..=10 (thorough) bytes, both representations.", "4 C15"),
    'C16': ("model_checking", "All pairs of byte strings of 0..=9 bytes in the four representation combinations: outside the region of the recorded finding concat is exact "
            "byte-string concatenation and leaves operands unchanged; inside the region the solver's counterexample is reported as KNOWN-FINDING.", "4 C16"),
}
checks = []
for pid, (cat, text, ref) in KCHECKS.items():
    checks.append({
        "property_id": pid,
        "quick_cmd": "./check %s --tier quick" % pid,
        "thorough_cmd": "./check %s --tier thorough" % pid,
        "evidence_file": "evidence/%s.json" % pid,
        "replay_cmd_template": "./check %s --replay {path}" % pid,
        "engine": "K",
        "level_claimed": {"category": cat, "text": text, "design_ref": "DESIGN.md section " + ref},
        "level_note": K_NOTE,
        "technique": K_TECH,
    })
for pid, (cat, text, ref) in CHECKS.items():
    checks.append({
        "property_id": pid,
        "quick_cmd": "./check %s --tier quick" % pid,
        "thorough_cmd": "./check %s --tier thorough" % pid,
        "evidence_file": "evidence/%s.json" % pid,
        "replay_cmd_template": "./check %s --replay {path}" % pid,
        "engine": "S",
        "level_claimed": {"category": cat, "text": text, "design_ref": "DESIGN.md section " + ref},
        "level_note": T_NOTE if pid in ('C17', 'C08', 'C09', 'C18', 'C20', 'C13', 'C11', 'C12', 'C14') else S_NOTE,
        "technique": S_TECH if pid != 'C17' else "symbolic execution of rustc's LLVM IR incl. core/alloc/std (-Zbuild-std, own executor) + z3: all texts of a shape / all label values within stated bounds",
    })

NA = {
}
na = []
for p in props:
    if p['id'] in CHECKS or p['id'] in KCHECKS:
        continue
    na.append({"property_id": p['id'], "reason": NA.get(p['id'], "check not built yet (framework under construction)")})

m = {
    "version": 1,
    "setup_cmd": "./setup.sh",
    "hooks": {"guard": "cargo feature `verif`", "enable": "sodg = { path = \"/repo\", features = [\"verif\"] } in /verif/drv/Cargo.toml (driver crate built by every check)",
              "baseline_off_cmd": "cd /repo && cargo test --workspace --no-fail-fast --offline", "source_commits": hook, "add_only": True},
    "engines": [{"name": "K", "path": "kani/", "serves_properties": sorted(KCHECKS), "kind_free_text": "Kani 0.68 / CBMC 6.11 proof harnesses for sodg::Hex in a separate crate with a path dependency on /repo (no hooks)"},
                {"name": "S", "path": "seir/", "serves_properties": sorted(CHECKS), "kind_free_text": "symbolic executor for rustc-emitted LLVM IR (Python) with z3; IR regenerated from /repo by building /verif/drv on every run"}],
    "checks": checks,
    "notes": "exit 2 from a check means inconclusive (unsupported IR, solver gave up, counterexample that does not reproduce natively); known findings and repairs are in known_findings.txt",
    "not_applicable": na,
}
json.dump(m, open(os.path.join(V, 'MANIFEST.json'), 'w'), indent=1)
import jsonschema
jsonschema.validate(m, json.load(open('/root/.vp/MANIFEST.schema.json')))
print("MANIFEST ok:", len(checks), "checks,", len(na), "not applicable")
