#!/bin/bash
# usage: confirm_mutant.sh <dir with patch.diff and demo.rs>
# In a scratch worktree of /repo: (1) patch applies, (2) the repo's tests pass with it, (3) the demo fails with it,
# (4) the demo passes without it.  Prints one line per step; exit 0 iff all four hold.
set -u
D=$(readlink -f "$1"); WT=/tmp/wt/confirm; export CARGO_TARGET_DIR=/tmp/wt/confirm-target CARGO_NET_OFFLINE=true
[ -d $WT ] || git -C /repo worktree add -q --detach $WT HEAD
cd $WT && git checkout -q --detach $(git -C /repo rev-parse HEAD) && git checkout -q -- . && rm -rf tests/demo.rs
git apply --check "$D/patch.diff" || { echo "patch does not apply"; exit 1; }
git apply "$D/patch.diff"
T=$(timeout 1200 cargo test --offline 2>&1 | grep -E "^test result" | tr '\n' ' ')
echo "tests with mutant: $T"
echo "$T" | grep -q "94 passed; 0 failed" || { echo "FAIL: suite not green"; git checkout -q -- .; exit 1; }
mkdir -p tests && cp "$D/demo.rs" tests/demo.rs
R1=$(timeout 600 cargo test --offline --test demo 2>&1 | grep -E "^test result" | head -1)
echo "demo with mutant: $R1"
git checkout -q -- src Cargo.toml 2>/dev/null; git checkout -q -- .
R2=$(timeout 600 cargo test --offline --test demo 2>&1 | grep -E "^test result" | head -1)
echo "demo without mutant: $R2"
rm -rf tests/demo.rs; rmdir tests 2>/dev/null
echo "$R1" | grep -q "FAILED" && echo "$R2" | grep -q "ok" && { echo CONFIRMED; exit 0; }
echo "NOT CONFIRMED"; exit 1
