#!/bin/bash
# warm the build-std target directory (core/alloc/std + /repo as LLVM IR, nightly toolchain)
cd /verif/bs || exit 0
[ -f Cargo.lock ] || cp /repo/Cargo.lock Cargo.lock
CARGO_TARGET_DIR=/verif/.build/bs CARGO_NET_OFFLINE=true RUSTFLAGS="--emit=llvm-ir -C no-vectorize-loops -C no-vectorize-slp" \
  timeout 1500 cargo +nightly build --release --offline -Zbuild-std=core,alloc,std,panic_abort --target x86_64-unknown-linux-gnu 2>&1 | tail -1
exit 0
