#!/bin/bash
# usage: seed_run.sh <seed id>...   (all seeds when none given)
# applies each seeded change to /repo, runs the quick check of every property it breaks, restores /repo,
# and records rc and the first VIOLATION line in the seed's meta.json
cd "$(dirname "$0")/.."
V=$(pwd)
R=${VERIF_REPO:-/repo}
[ $# -eq 0 ] && set -- $(ls seeded | grep '^S')
for s in "$@"; do
  d=seeded/$s
  git -C $R diff --quiet || { echo "/repo is dirty"; exit 3; }
  git -C $R apply $V/$d/patch.diff || { echo "$s: patch does not apply"; continue; }
  for p in $(python3-vt -c "import json; print(' '.join(json.load(open('$d/meta.json'))['breaks']))"); do
    t0=$(date +%s); timeout 3000 ./check $p --tier quick > /tmp/seed_${s}_$p.log 2>&1; rc=$?
    line=$(grep -A1 '^VIOLATION' /tmp/seed_${s}_$p.log | grep -v '^VIOLATION\|^--' | head -1 | cut -c1-260)
    [ -z "$line" ] && line=$(grep '^INCONCLUSIVE' /tmp/seed_${s}_$p.log | head -1 | cut -c1-260)
    python3-vt - "$d/meta.json" "$p" "$rc" "$line" "$(( $(date +%s) - t0 ))" <<'PY'
import json, sys
f, p, rc, line, secs = sys.argv[1:6]
m = json.load(open(f)); m.setdefault('detection', {})[p] = dict(cmd="./check %s --tier quick" % p, exit=int(rc), caught=(int(rc) == 1), first_line=line.strip(), seconds=int(secs))
json.dump(m, open(f, 'w'), indent=1)
PY
    echo "$s $p rc=$rc ${line}"
  done
  git -C $R checkout -- .
done
git -C $V checkout -- evidence 2>/dev/null
