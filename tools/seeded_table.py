#!/opt/veriftools/pyvenv/bin/python3
"""regenerate seeded/README.md from the meta.json files"""
import glob, json, os
V = os.path.dirname(os.path.dirname(os.path.abspath(__file__)))
rows = []
for f in sorted(glob.glob(os.path.join(V, 'seeded', '*', 'meta.json'))):
    m = json.load(open(f))
    det = []
    for p, d in sorted(m.get('detection', {}).items()):
        det.append("%s: %s (%ds)%s" % (p, 'caught' if d['caught'] else ('MISSED' if d['exit'] == 0 else 'inconclusive (exit %d)' % d['exit']), d.get('seconds', 0),
                                       (' — ' + d['first_line'][:140]) if d.get('first_line') else ''))
    rows.append("| %s | %s | %s | %s | %s |" % (m['id'], ', '.join(m['breaks']), m['change'].replace('|', '\\|'), m['needs'].replace('|', '\\|'), '<br>'.join(det).replace('|', '\\|')))
out = ["# Seeded changes", "",
       "Each directory holds `patch.diff` (against /repo HEAD at the time), `demo.rs` (an integration test that fails with the change and passes without),",
       "`notes.md` (the author's notes) and `meta.json`. Authors were sub-agents that saw only the property text and a scratch worktree, nothing from /verif.",
       "Every change compiles, keeps the 94 unit and 42 doc tests green and was confirmed with `tools/confirm_mutant.sh`. Detection = `tools/seed_run.sh <id>`:",
       "the patch is applied to /repo, the quick check of each property it breaks is run, /repo is restored.", "",
       "| seed | breaks | change | needs | detection (quick tier) |", "|---|---|---|---|---|"] + rows + [""]
open(os.path.join(V, 'seeded', 'README.md'), 'w').write('\n'.join(out))
# compact table for DESIGN.md section 7
comp = ["| seed | breaks | change (short) | caught by (quick tier) |", "|---|---|---|---|"]
for f in sorted(glob.glob(os.path.join(V, 'seeded', '*', 'meta.json'))):
    m = json.load(open(f))
    det = []
    for p, d in sorted(m.get('detection', {}).items()):
        det.append("%s %s" % (p, 'caught' if d['caught'] else ('MISSED' if d['exit'] == 0 else ('timed out' if d['exit'] == 124 else 'inconclusive'))))
    comp.append("| %s | %s | %s | %s |" % (m['id'], ', '.join(m['breaks']), m['change'].replace('|', '\\|')[:110], '; '.join(det) or 'not run'))
dp = os.path.join(V, 'DESIGN.md')
ds = open(dp).read()
a, b = ds.index('<!-- SEEDS-BEGIN -->') + len('<!-- SEEDS-BEGIN -->'), ds.index('<!-- SEEDS-END -->')
open(dp, 'w').write(ds[:a] + '\n' + '\n'.join(comp) + '\n' + ds[b:])
print(len(rows), "seeds")
