#!/bin/bash
# warm the Kani target directory (compiles /repo and its dependencies with Kani's toolchain)
cd /verif/kani || exit 0
[ -f Cargo.lock ] || cp /repo/Cargo.lock Cargo.lock
CARGO_TARGET_DIR=/verif/.build/kani CARGO_NET_OFFLINE=true timeout 1500 cargo kani -Z stubbing --only-codegen 2>&1 | tail -1
exit 0
