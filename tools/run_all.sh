#!/bin/bash
# run every registered quick (or thorough) check on the current /repo tree; one summary line per check
cd /verif
tier=${1:-quick}
for p in $(python3-vt -c "import json; print(' '.join(c['property_id'] for c in json.load(open('MANIFEST.json'))['checks']))"); do
  t0=$(date +%s); timeout 7200 ./check $p --tier $tier > /tmp/all_$p.log 2>&1; rc=$?
  echo "$p rc=$rc $(( $(date +%s) - t0 ))s $(tail -1 /tmp/all_$p.log | cut -c1-160)"
done
