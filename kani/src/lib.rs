//! Kani proof harnesses for `sodg::Hex` (properties C15 and C16). No harness
//! calls formatting code. Bounds: byte strings of 0..=MAX bytes, both
//! representations (inline with arbitrary padding for <= 8 bytes, heap for any
//! length), every index / range bound as an unconstrained usize.
#![cfg(kani)]
#![allow(clippy::all)]

use sodg::Hex;

const MAX: usize = 10;

/// A byte string of symbolic length and content, and a Hex holding it in a
/// symbolically chosen representation.
struct Sym {
    h: Hex,
    b: [u8; MAX],
    len: usize,
}

fn hex_of(b: &[u8; MAX], len: usize, inline: bool) -> Hex {
    if inline && len <= 8 {
        let mut a: [u8; 8] = kani::any(); // arbitrary padding beyond len
        let mut i = 0;
        while i < 8 {
            if i < len {
                a[i] = b[i];
            }
            i += 1;
        }
        Hex::Bytes(a, len)
    } else {
        Hex::Vector(b[..len].to_vec())
    }
}

fn any_sym(max: usize) -> Sym {
    let b: [u8; MAX] = kani::any();
    let len: usize = kani::any();
    kani::assume(len <= max);
    let inline: bool = kani::any();
    let h = hex_of(&b, len, inline);
    kani::cover!(matches!(h, Hex::Bytes(_, _)) && len == 8, "inline at the boundary");
    kani::cover!(matches!(h, Hex::Vector(_)) && len <= 8, "heap below the boundary");
    kani::cover!(matches!(h, Hex::Vector(_)) && len == 9, "heap just above the boundary");
    Sym { h, b, len }
}

fn same_bytes(got: &[u8], b: &[u8; MAX], from: usize, to: usize) {
    assert!(got.len() == to - from);
    let mut i = 0;
    while i < MAX {
        if from + i < to {
            assert!(got[i] == b[from + i]);
        }
        i += 1;
    }
}

// ---------------------------------------------------------------- C15: observers

#[kani::proof]
#[kani::unwind(12)]
fn c15_bytes_len_to_vec() {
    let s = any_sym(MAX);
    assert!(s.h.len() == s.len);
    assert!(s.h.is_empty() == (s.len == 0));
    same_bytes(s.h.bytes(), &s.b, 0, s.len);
    let v = s.h.to_vec();
    same_bytes(&v, &s.b, 0, s.len);
}

#[kani::proof]
#[kani::unwind(12)]
fn c15_eq_depends_on_bytes_only() {
    let b1: [u8; MAX] = kani::any();
    let b2: [u8; MAX] = kani::any();
    let l1: usize = kani::any();
    let l2: usize = kani::any();
    kani::assume(l1 <= MAX && l2 <= MAX);
    let h1 = hex_of(&b1, l1, kani::any());
    let h2 = hex_of(&b2, l2, kani::any());
    let mut same = l1 == l2;
    let mut i = 0;
    while i < MAX {
        if i < l1 && i < l2 && b1[i] != b2[i] {
            same = false;
        }
        i += 1;
    }
    assert!((h1 == h2) == same);
    kani::cover!(same && matches!(h1, Hex::Bytes(_, _)) && matches!(h2, Hex::Vector(_)), "equal across representations");
    kani::cover!(!same && l1 == l2, "same length, different bytes");
}

#[kani::proof]
#[kani::unwind(12)]
fn c15_constructors_hold_their_bytes() {
    let b: [u8; MAX] = kani::any();
    let len: usize = kani::any();
    kani::assume(len <= MAX);
    let h = Hex::from_slice(&b[..len]);
    same_bytes(h.bytes(), &b, 0, len);
    assert!(matches!(h, Hex::Bytes(_, _)) == (len <= 8));
    let g = Hex::from_vec(b[..len].to_vec());
    same_bytes(g.bytes(), &b, 0, len);
    assert!(Hex::empty().len() == 0);
}

// ---------------------------------------------------------------- C15: single index

#[kani::proof]
#[kani::unwind(12)]
fn c15_index_ok() {
    let mut s = any_sym(MAX);
    let i: usize = kani::any();
    kani::assume(i < s.len);
    assert!(s.h[i] == s.b[i]);
    assert!(s.h.byte_at(i) == s.b[i]);
    let x: u8 = kani::any();
    s.h[i] = x;
    assert!(s.h.bytes()[i] == x);
    assert!(s.h.len() == s.len);
    let j: usize = kani::any();
    kani::assume(j < s.len && j != i);
    assert!(s.h.bytes()[j] == s.b[j]);
}

macro_rules! must_panic {
    ($name:ident, $max:expr, |$s:ident| $pre:expr, $call:expr) => {
        #[kani::proof]
        #[kani::unwind(12)]
        fn $name() {
            #[allow(unused_mut)]
            let mut $s = any_sym($max);
            kani::assume($pre);
            kani::cover!(true, "REACHED-CALL");
            let _r = $call;
            // reachable only if the call returned although the same index on the slice panics
            assert!(false, "RETURNED-WITHOUT-PANIC");
        }
    };
}

static mut I: usize = 0;
static mut J: usize = 0;

fn i() -> usize {
    unsafe { I }
}
fn j() -> usize {
    unsafe { J }
}
fn pick() -> bool {
    unsafe {
        I = kani::any();
        J = kani::any();
    }
    true
}

must_panic!(c15_index_panics, MAX, |s| pick() && i() >= s.len, s.h[i()]);
must_panic!(c15_index_mut_panics, MAX, |s| pick() && i() >= s.len, {
    s.h[i()] = 1;
});
must_panic!(c15_byte_at_panics, MAX, |s| pick() && i() >= s.len, s.h.byte_at(i()));
must_panic!(c15_tail_panics, MAX, |s| pick() && i() > s.len, s.h.tail(i()).len());

// ---------------------------------------------------------------- C15: the six range kinds

#[kani::proof]
#[kani::unwind(12)]
fn c15_range_ok() {
    let s = any_sym(MAX);
    let a: usize = kani::any();
    let e: usize = kani::any();
    kani::assume(a <= e && e <= s.len);
    same_bytes(&s.h[a..e], &s.b, a, e);
    kani::cover!(a == e && e == s.len, "empty range at the end");
    kani::cover!(a == 0 && e == s.len && s.len == 8, "full range at the boundary");
}
must_panic!(c15_range_panics, MAX, |s| pick() && !(i() <= j() && j() <= s.len), s.h[i()..j()].len());

#[kani::proof]
#[kani::unwind(12)]
fn c15_range_from_ok() {
    let s = any_sym(MAX);
    let a: usize = kani::any();
    kani::assume(a <= s.len);
    same_bytes(&s.h[a..], &s.b, a, s.len);
    same_bytes(s.h.tail(a).bytes(), &s.b, a, s.len);
    kani::cover!(a == s.len, "empty tail");
}
must_panic!(c15_range_from_panics, MAX, |s| pick() && i() > s.len, s.h[i()..].len());

#[kani::proof]
#[kani::unwind(12)]
fn c15_range_full_and_to_ok() {
    let s = any_sym(MAX);
    same_bytes(&s.h[..], &s.b, 0, s.len);
    let e: usize = kani::any();
    kani::assume(e <= s.len);
    same_bytes(&s.h[..e], &s.b, 0, e);
}
must_panic!(c15_range_to_panics, MAX, |s| pick() && i() > s.len, s.h[..i()].len());

#[kani::proof]
#[kani::unwind(12)]
fn c15_range_inclusive_ok() {
    let s = any_sym(MAX);
    let a: usize = kani::any();
    let e: usize = kani::any();
    // slice rule for a..=e: e < len and a <= e + 1
    kani::assume(e < s.len && a <= e + 1);
    same_bytes(&s.h[a..=e], &s.b, a, e + 1);
    same_bytes(&s.h[..=e], &s.b, 0, e + 1);
    kani::cover!(a == e + 1, "empty inclusive range");
}
must_panic!(c15_range_inclusive_panics, MAX, |s| pick() && !(j() < s.len && i() <= j() + 1) && j() != usize::MAX, s.h[i()..=j()].len());
must_panic!(c15_range_inclusive_max_panics, MAX, |s| pick(), s.h[i()..=usize::MAX].len());
must_panic!(c15_range_to_inclusive_panics, MAX, |s| pick() && i() >= s.len, s.h[..=i()].len());

// ---------------------------------------------------------------- C15: numeric conversions

/// `format!` is reached only where `to_i64`/`to_f64` build their error text; the text is not part
/// of the property, so formatting is stubbed out (listed in evidence).
fn stub_format(_args: core::fmt::Arguments<'_>) -> String {
    String::new()
}

#[kani::proof]
#[kani::unwind(12)]
#[kani::stub(alloc::fmt::format, stub_format)]
#[kani::stub(std::backtrace::Backtrace::capture, std::backtrace::Backtrace::disabled)]
fn c15_i64_roundtrip() {
    let x: i64 = kani::any();
    let h = Hex::from(x);
    assert!(h.len() == 8);
    match h.to_i64() {
        Ok(y) => assert!(y == x),
        Err(e) => {
            std::mem::forget(e);
            assert!(false, "to_i64 fails on 8 bytes");
        }
    }
    std::mem::forget(h);
}

#[kani::proof]
#[kani::unwind(12)]
#[kani::stub(alloc::fmt::format, stub_format)]
#[kani::stub(std::backtrace::Backtrace::capture, std::backtrace::Backtrace::disabled)]
fn c15_f64_roundtrip() {
    let bits: u64 = kani::any();
    let g = Hex::from(f64::from_bits(bits));
    assert!(g.len() == 8);
    match g.to_f64() {
        Ok(y) => assert!(y.to_bits() == bits),
        Err(e) => {
            std::mem::forget(e);
            assert!(false, "to_f64 fails on 8 bytes");
        }
    }
    std::mem::forget(g);
}

#[kani::proof]
#[kani::unwind(12)]
#[kani::stub(alloc::fmt::format, stub_format)]
#[kani::stub(std::backtrace::Backtrace::capture, std::backtrace::Backtrace::disabled)]
fn c15_conversions_of_eight_bytes() {
    let s = any_sym(MAX);
    kani::assume(s.len == 8);
    let mut a = [0_u8; 8];
    let mut k = 0;
    while k < 8 {
        a[k] = s.b[k];
        k += 1;
    }
    match s.h.to_i64() {
        Ok(y) => assert!(y == i64::from_be_bytes(a)),
        Err(e) => {
            std::mem::forget(e);
            assert!(false, "to_i64 fails on 8 bytes");
        }
    }
    match s.h.to_f64() {
        Ok(y) => assert!(y.to_bits() == u64::from_be_bytes(a)),
        Err(e) => {
            std::mem::forget(e);
            assert!(false, "to_f64 fails on 8 bytes");
        }
    }
    std::mem::forget(s);
}

#[kani::proof]
#[kani::unwind(12)]
#[kani::stub(alloc::fmt::format, stub_format)]
#[kani::stub(std::backtrace::Backtrace::capture, std::backtrace::Backtrace::disabled)]
fn c15_conversions_fail_unless_eight_bytes() {
    let s = any_sym(MAX);
    kani::assume(s.len != 8);
    match s.h.to_i64() {
        Ok(_) => assert!(false, "to_i64 accepts a length other than 8"),
        Err(e) => std::mem::forget(e),
    }
    match s.h.to_f64() {
        Ok(_) => assert!(false, "to_f64 accepts a length other than 8"),
        Err(e) => std::mem::forget(e),
    }
    kani::cover!(s.len == 7, "seven bytes");
    kani::cover!(s.len == 9, "nine bytes");
    std::mem::forget(s);
}

// ---------------------------------------------------------------- C16: concat

fn check_concat(known_region: bool) {
    let a = any_sym(9);
    let b = any_sym(9);
    let inline_a = matches!(a.h, Hex::Bytes(_, _));
    let region = inline_a && a.len < 8 && a.len + b.len > 8;
    kani::assume(region == known_region);
    let c = a.h.concat(&b.h);
    kani::cover!(true, "REACHED-CALL");
    assert!(c.len() == a.len + b.len, "C16 length");
    let cb = c.bytes();
    let mut i = 0;
    while i < 9 {
        if i < a.len {
            assert!(cb[i] == a.b[i], "C16 left bytes");
        }
        if i < b.len {
            assert!(cb[a.len + i] == b.b[i], "C16 right bytes");
        }
        i += 1;
    }
    // operands unchanged
    same_bytes(a.h.bytes(), &a.b, 0, a.len);
    same_bytes(b.h.bytes(), &b.b, 0, b.len);
    kani::cover!(inline_a && matches!(c, Hex::Vector(_)), "inline spills to heap");
    kani::cover!(inline_a && a.len + b.len == 8, "inline result at the boundary");
    kani::cover!(!inline_a && b.len == 0, "heap with empty right operand");
}

/// Everywhere except the recorded finding (inline receiver shorter than 8 bytes spilling to the heap).
#[kani::proof]
#[kani::unwind(12)]
fn c16_concat_outside_known_region() {
    check_concat(false);
}

/// Inside the region of the recorded finding: expected to fail while the finding stands.
#[kani::proof]
#[kani::unwind(12)]
fn c16_concat_inside_known_region() {
    check_concat(true);
}
