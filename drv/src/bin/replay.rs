fn main() {}
