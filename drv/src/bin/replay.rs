//! Native replay: restores a graph from a plain-data snapshot (or starts from
//! `empty(cap)`), applies calls of the public API and prints the result and the
//! snapshot after every call, one JSON object per line. A panic aborts the
//! process (the profile has panic=abort); the lines printed so far and the
//! message on stderr tell where.
use serde_json::{json, Value};
use sodg::{Hex, Label, Sodg, VerifSnapshot, VerifVertex};
use std::io::Write;

fn label_from(v: &Value) -> Label {
    if let Some(c) = v.get("g") {
        Label::Greek(char::from_u32(c.as_u64().unwrap() as u32).unwrap())
    } else if let Some(n) = v.get("a") {
        Label::Alpha(n.as_u64().unwrap() as usize)
    } else {
        let mut a = [' '; 8];
        for (i, c) in v["s"].as_array().unwrap().iter().enumerate() {
            a[i] = char::from_u32(c.as_u64().unwrap() as u32).unwrap();
        }
        Label::Str(a)
    }
}

fn label_to(a: &Label) -> Value {
    match a {
        Label::Greek(c) => json!({"g": u32::from(*c)}),
        Label::Alpha(n) => json!({"a": *n}),
        Label::Str(s) => json!({"s": s.iter().map(|c| u32::from(*c)).collect::<Vec<u32>>()}),
    }
}

fn bytes_from(v: &Value) -> Vec<u8> {
    v.as_array().unwrap().iter().map(|b| b.as_u64().unwrap() as u8).collect()
}

fn hex_from(v: &Value) -> Hex {
    let data = bytes_from(&v["data"]);
    if v["inline"].as_bool().unwrap_or(data.len() <= 8) {
        let mut a = [0_u8; 8];
        a[..data.len()].copy_from_slice(&data);
        if let Some(pad) = v.get("pad") {
            for (i, b) in bytes_from(pad).iter().enumerate() {
                if data.len() + i < 8 {
                    a[data.len() + i] = *b;
                }
            }
        }
        Hex::Bytes(a, data.len())
    } else {
        Hex::Vector(data)
    }
}

fn snap_from(v: &Value) -> VerifSnapshot {
    let vertices = v["vertices"]
        .as_array()
        .unwrap()
        .iter()
        .map(|x| {
            if x.is_null() {
                None
            } else {
                Some(VerifVertex {
                    branch: x["branch"].as_u64().unwrap() as usize,
                    persistence: x["persistence"].as_u64().unwrap() as u8,
                    data: bytes_from(&x["data"]),
                    inline: x["inline"].as_bool().unwrap(),
                    edges: x["edges"]
                        .as_array()
                        .unwrap()
                        .iter()
                        .map(|e| (label_from(&e[0]), e[1].as_u64().unwrap() as usize))
                        .collect(),
                })
            }
        })
        .collect();
    VerifSnapshot {
        vertices,
        branches: v["branches"]
            .as_array()
            .unwrap()
            .iter()
            .map(|b| b.as_array().unwrap().iter().map(|m| m.as_u64().unwrap() as usize).collect())
            .collect(),
        stores: v["stores"].as_array().unwrap().iter().map(|m| m.as_u64().unwrap() as usize).collect(),
        next_v: v["next_v"].as_u64().unwrap() as usize,
    }
}

fn snap_to(s: &VerifSnapshot) -> Value {
    json!({
        "vertices": s.vertices.iter().map(|x| match x {
            None => Value::Null,
            Some(p) => json!({
                "branch": p.branch, "persistence": p.persistence, "data": p.data, "inline": p.inline,
                "edges": p.edges.iter().map(|(a, to)| json!([label_to(a), to])).collect::<Vec<Value>>(),
            }),
        }).collect::<Vec<Value>>(),
        "branches": s.branches, "stores": s.stores, "next_v": s.next_v,
    })
}

fn emit(i: usize, ret: Value, g: &VerifSnapshot) {
    let out = std::io::stdout();
    let mut out = out.lock();
    writeln!(out, "{}", json!({"i": i, "ret": ret, "snap": snap_to(g)})).unwrap();
    out.flush().unwrap();
}

fn run<const N: usize>(job: &Value) {
    let cap = job["cap"].as_u64().unwrap() as usize;
    let mut g: Sodg<N> = if job["pre"].is_null() {
        Sodg::empty(cap)
    } else {
        Sodg::verif_restore(&snap_from(&job["pre"]))
    };
    let mut other: Option<Sodg<N>> = None;
    emit(0, Value::Null, &g.verif_snapshot());
    for (k, c) in job["calls"].as_array().unwrap().iter().enumerate() {
        let op = c["op"].as_str().unwrap();
        let u = |name: &str| c[name].as_u64().unwrap() as usize;
        // "on": "clone" applies the call to the clone made earlier
        let tgt: &mut Sodg<N> = if c["on"].as_str() == Some("clone") { other.as_mut().unwrap() } else { &mut g };
        let ret = match op {
            "add" => {
                tgt.add(u("v"));
                Value::Null
            }
            "bind" => {
                tgt.bind(u("v1"), u("v2"), label_from(&c["a"]));
                Value::Null
            }
            "put" => {
                tgt.put(u("v"), &hex_from(&c["d"]));
                Value::Null
            }
            "data" => match tgt.data(u("v")) {
                Some(h) => json!({"some": h.bytes(), "inline": matches!(h, Hex::Bytes(_, _))}),
                None => json!("none"),
            },
            "kid" => match tgt.kid(u("v"), label_from(&c["a"])) {
                Some(t) => json!({"some": t}),
                None => json!("none"),
            },
            "kids" => json!(tgt.kids(u("v")).map(|(a, to)| json!([label_to(a), to])).collect::<Vec<Value>>()),
            "next_id" => json!(tgt.next_id()),
            "len" => json!(tgt.len()),
            "is_empty" => json!(tgt.is_empty()),
            "keys" => json!(tgt.keys()),
            "save_load" | "save_cut_load" => {
                let path = std::env::temp_dir().join(format!("verif-replay-{}.sodg", std::process::id()));
                let size = tgt.save(&path).unwrap();
                if op == "save_cut_load" {
                    let bytes = std::fs::read(&path).unwrap();
                    std::fs::write(&path, &bytes[..u("cut").min(bytes.len())]).unwrap();
                }
                let r = match Sodg::<N>::load(&path) {
                    Ok(l) => json!({"ok": true, "size": size, "loaded": snap_to(&l.verif_snapshot())}),
                    Err(e) => json!({"ok": false, "size": size, "error": format!("{e:#}")}),
                };
                let _ = std::fs::remove_file(&path);
                r
            }
            "inspect" => match tgt.inspect(u("v")) {
                Ok(t) => json!({"text": t}),
                Err(e) => json!({"error": e.to_string()}),
            },
            "v_print" => match tgt.v_print(u("v")) {
                Ok(t) => json!({"text": t}),
                Err(e) => json!({"error": e.to_string()}),
            },
            "debug" => json!({"text": format!("{tgt:?}")}),
            "to_xml" => json!({"text": tgt.to_xml().unwrap()}),
            "to_dot" => json!({"text": tgt.to_dot()}),
            "slice" | "slice_some" => {
                // "reject": the edges [from, to, label] the predicate turns down (everything else is accepted)
                let reject: Vec<(usize, usize, Label)> = c["reject"].as_array().map(|a| {
                    a.iter().map(|e| (e[0].as_u64().unwrap() as usize, e[1].as_u64().unwrap() as usize, label_from(&e[2]))).collect()
                }).unwrap_or_default();
                let r = if op == "slice" { tgt.slice(u("v")) } else {
                    tgt.slice_some(u("v"), |f, t, l| !reject.iter().any(|(a, b, x)| *a == f && *b == t && *x == l))
                };
                match r {
                    Ok(x) => json!({"ok": true, "slice": snap_to(&x.verif_snapshot())}),
                    Err(e) => json!({"ok": false, "error": format!("{e:#}")}),
                }
            }
            "merge" => {
                let h: Sodg<N> = Sodg::verif_restore(&snap_from(&c["right_graph"]));
                let r = tgt.merge(&h, u("left"), u("right"));
                let hs = snap_to(&h.verif_snapshot());
                match r {
                    Ok(()) => json!({"ok": true, "right_graph_after": hs}),
                    Err(e) => json!({"ok": false, "error": format!("{e:#}"), "right_graph_after": hs}),
                }
            }
            "deploy" => {
                let txt = String::from_utf8(bytes_from(&c["text"])).expect("script text is not UTF-8");
                let mut s = sodg::Script::from_str(&txt);
                match s.deploy_to(tgt) {
                    Ok(n) => json!({"ok": true, "count": n}),
                    Err(e) => json!({"ok": false, "error": format!("{e:#}")}),
                }
            }
            "clone" => {
                other = Some(tgt.clone());
                json!({"clone": snap_to(&other.as_ref().unwrap().verif_snapshot())})
            }
            _ => panic!("unknown op {op}"),
        };
        let snap = if c["on"].as_str() == Some("clone") {
            other.as_ref().unwrap().verif_snapshot()
        } else {
            g.verif_snapshot()
        };
        emit(k + 1, ret, &snap);
    }
}

/// Text jobs (Label / Hex parsing and printing): one output line per call.
fn run_text(job: &Value) {
    use std::str::FromStr;
    for (k, c) in job["calls"].as_array().unwrap().iter().enumerate() {
        let out = match c["op"].as_str().unwrap() {
            "parse" => {
                let bytes = bytes_from(&c["bytes"]);
                let txt = String::from_utf8(bytes).expect("replay text is not UTF-8");
                match Label::from_str(&txt) {
                    Ok(l) => json!({"i": k, "ok": true, "label": label_to(&l), "printed": l.to_string().as_bytes()}),
                    Err(e) => json!({"i": k, "ok": false, "error": e.to_string()}),
                }
            }
            "print" => {
                let l = label_from(&c["label"]);
                let txt = l.to_string();
                match Label::from_str(&txt) {
                    Ok(m) => json!({"i": k, "printed": txt.as_bytes(), "ok": true, "label": label_to(&m), "equal": m == l}),
                    Err(e) => json!({"i": k, "printed": txt.as_bytes(), "ok": false, "error": e.to_string()}),
                }
            }
            "hex_print" => {
                let h = hex_from(&c["d"]);
                let txt = h.print();
                match Hex::from_str(&txt) {
                    Ok(g) => json!({"i": k, "printed": txt.as_bytes(), "ok": true, "bytes": g.bytes(), "equal": g == h}),
                    Err(e) => json!({"i": k, "printed": txt.as_bytes(), "ok": false, "error": e.to_string()}),
                }
            }
            op => panic!("unknown text op {op}"),
        };
        println!("{out}");
    }
}

fn main() {
    let path = std::env::args().nth(1).expect("usage: replay <job.json>");
    let job: Value = serde_json::from_str(&std::fs::read_to_string(path).unwrap()).unwrap();
    if job["text"].as_bool() == Some(true) {
        run_text(&job);
        return;
    }
    match job["n"].as_u64().unwrap() {
        1 => run::<1>(&job),
        2 => run::<2>(&job),
        3 => run::<3>(&job),
        4 => run::<4>(&job),
        16 => run::<16>(&job),
        n => panic!("no instantiation for N={n}"),
    }
}
