//! Thin `extern "C"` wrappers around the text-producing and text-parsing parts of
//! `sodg` (Label and Hex). Built with `-Zbuild-std` so that the executor has the IR
//! of `core::fmt`, `core::str` and `core::num` as well. No logic of their own.
#![allow(clippy::missing_safety_doc, improper_ctypes_definitions)]

use sodg::{Hex, Label, Sodg};
use std::str::FromStr;

extern "C" {
    /// answered by the executor: the predicate of `slice_some` for the edge (from, to, label)
    fn verif_pred(from: usize, to: usize, kind: u32, words: *const u64) -> bool;
}

macro_rules! inst {
    ($n:literal) => {
        const _: () = {
            type G = Sodg<$n>;

            #[export_name = concat!("s", stringify!($n), "_empty")]
            pub unsafe extern "C" fn empty(out: *mut G, cap: usize) {
                out.write(G::empty(cap));
            }
            #[export_name = concat!("s", stringify!($n), "_drop")]
            pub unsafe extern "C" fn drop_(g: *mut G) {
                std::ptr::drop_in_place(g);
            }
            #[export_name = concat!("s", stringify!($n), "_add")]
            pub extern "C" fn add(g: &mut G, v: usize) {
                g.add(v);
            }
            #[export_name = concat!("s", stringify!($n), "_bind")]
            pub extern "C" fn bind(g: &mut G, v1: usize, v2: usize, a: &Label) {
                g.bind(v1, v2, *a);
            }
            #[export_name = concat!("s", stringify!($n), "_put")]
            pub extern "C" fn put(g: &mut G, v: usize, d: &Hex) {
                g.put(v, d);
            }
            #[export_name = concat!("s", stringify!($n), "_data")]
            pub unsafe extern "C" fn data(g: &mut G, v: usize, out: *mut Hex) -> bool {
                match g.data(v) {
                    Some(h) => {
                        out.write(h);
                        true
                    }
                    None => false,
                }
            }
            #[export_name = concat!("s", stringify!($n), "_kid")]
            pub extern "C" fn kid(g: &G, v: usize, a: &Label, out: &mut usize) -> bool {
                match g.kid(v, *a) {
                    Some(t) => {
                        *out = t;
                        true
                    }
                    None => false,
                }
            }
            #[export_name = concat!("s", stringify!($n), "_kids")]
            pub unsafe extern "C" fn kids(
                g: &G,
                v: usize,
                labels: *mut Label,
                targets: *mut usize,
            ) -> usize {
                let mut n = 0;
                for (a, to) in g.kids(v) {
                    labels.add(n).write(*a);
                    targets.add(n).write(*to);
                    n += 1;
                }
                n
            }
            #[export_name = concat!("s", stringify!($n), "_next_id")]
            pub extern "C" fn next_id(g: &mut G) -> usize {
                g.next_id()
            }
            #[export_name = concat!("s", stringify!($n), "_len")]
            pub extern "C" fn len(g: &G) -> usize {
                g.len()
            }
            #[export_name = concat!("s", stringify!($n), "_is_empty")]
            pub extern "C" fn is_empty(g: &G) -> bool {
                g.is_empty()
            }
            #[export_name = concat!("s", stringify!($n), "_keys")]
            pub unsafe extern "C" fn keys(g: &G, out: *mut usize) -> usize {
                let k = g.keys();
                for (i, v) in k.iter().enumerate() {
                    out.add(i).write(*v);
                }
                k.len()
            }
            #[export_name = concat!("s", stringify!($n), "_clone")]
            pub unsafe extern "C" fn clone(g: &G, out: *mut G) {
                out.write(g.clone());
            }
            #[export_name = concat!("s", stringify!($n), "_probe")]
            pub extern "C" fn probe(g: &G, out: &mut [usize; 24]) {
                g.verif_probe(out);
            }
            #[export_name = concat!("s", stringify!($n), "_to_xml")]
            pub unsafe extern "C" fn to_xml(g: &G, out: *mut String) -> bool {
                match g.to_xml() {
                    Ok(s) => {
                        out.write(s);
                        true
                    }
                    Err(_) => false,
                }
            }
            #[export_name = concat!("s", stringify!($n), "_to_dot")]
            pub unsafe extern "C" fn to_dot(g: &G, out: *mut String) {
                out.write(g.to_dot());
            }
            #[export_name = concat!("s", stringify!($n), "_debug")]
            pub unsafe extern "C" fn debug(g: &G, out: *mut String) {
                out.write(format!("{g:?}"));
            }
            #[export_name = concat!("s", stringify!($n), "_inspect")]
            pub unsafe extern "C" fn inspect(g: &G, v: usize, out: *mut String) -> bool {
                match g.inspect(v) {
                    Ok(s) => {
                        out.write(s);
                        true
                    }
                    Err(_) => false,
                }
            }
            #[export_name = concat!("s", stringify!($n), "_v_print")]
            pub unsafe extern "C" fn v_print(g: &G, v: usize, out: *mut String) -> bool {
                match g.v_print(v) {
                    Ok(s) => {
                        out.write(s);
                        true
                    }
                    Err(_) => false,
                }
            }
            #[export_name = concat!("s", stringify!($n), "_slice")]
            pub unsafe extern "C" fn slice(g: &G, v: usize, out: *mut G) -> bool {
                match g.slice(v) {
                    Ok(x) => {
                        out.write(x);
                        true
                    }
                    Err(_) => false,
                }
            }
            /// `slice_some` with an arbitrary predicate: every question the real code asks is
            /// forwarded to the executor (`verif_pred` is an external symbol it answers with a
            /// solver variable per edge).
            #[export_name = concat!("s", stringify!($n), "_slice_some")]
            pub unsafe extern "C" fn slice_some(g: &G, v: usize, out: *mut G) -> bool {
                let r = g.slice_some(v, |f, t, l| {
                    let mut w = [0_u64; 8];
                    let k = label_view(&l, &mut w);
                    verif_pred(f, t, k, w.as_ptr())
                });
                match r {
                    Ok(x) => {
                        out.write(x);
                        true
                    }
                    Err(_) => false,
                }
            }
            /// `merge`: 0 = Ok, 1 = Err (the error text is written to `err`).
            #[export_name = concat!("s", stringify!($n), "_merge")]
            pub unsafe extern "C" fn merge(g: &mut G, h: &G, left: usize, right: usize, err: *mut String) -> bool {
                match g.merge(h, left, right) {
                    Ok(()) => true,
                    Err(e) => {
                        err.write(format!("{e:#}"));
                        false
                    }
                }
            }
            /// `Script::from_str(text).deploy_to(g)`: the count, or -1 for Err (text written to `err`).
            #[export_name = concat!("s", stringify!($n), "_deploy")]
            pub unsafe extern "C" fn deploy(g: &mut G, p: *const u8, len: usize, err: *mut String) -> isize {
                let mut s = sodg::Script::from_str(text(p, len));
                match s.deploy_to(g) {
                    Ok(n) => n as isize,
                    Err(e) => {
                        err.write(format!("{e:#}"));
                        -1
                    }
                }
            }
            #[export_name = concat!("s", stringify!($n), "_save")]
            pub unsafe extern "C" fn save(g: &G, p: *const u8, len: usize) -> isize {
                let path = std::str::from_utf8_unchecked(std::slice::from_raw_parts(p, len));
                match g.save(std::path::Path::new(path)) {
                    Ok(n) => n as isize,
                    Err(_) => -1,
                }
            }
            #[export_name = concat!("s", stringify!($n), "_load")]
            pub unsafe extern "C" fn load(p: *const u8, len: usize, out: *mut G) -> bool {
                let path = std::str::from_utf8_unchecked(std::slice::from_raw_parts(p, len));
                match G::load(std::path::Path::new(path)) {
                    Ok(g) => {
                        out.write(g);
                        true
                    }
                    Err(_) => false,
                }
            }
            /// Offsets inside the edge map of this instantiation, found through
            /// its public API: `[size, len_off, key0_off, val0_off, key1_off]`.
            #[export_name = concat!("s", stringify!($n), "_edges_layout")]
            pub extern "C" fn edges_layout(out: &mut [usize; 8]) {
                let mut m: micromap::Map<Label, usize, $n> = micromap::Map::new();
                let base = std::ptr::addr_of!(m) as usize;
                m.insert(Label::Alpha(7), 9);
                let (k0, v0) = {
                    let (k, v) = m.iter().next().unwrap();
                    (k as *const Label as usize, v as *const usize as usize)
                };
                out[0] = std::mem::size_of_val(&m);
                out[2] = k0 - base;
                out[3] = v0 - base;
                out[4] = std::mem::size_of::<(Label, usize)>();
                // `len` is the only other field: it is where the pairs are not
                out[1] = if out[2].min(out[3]) >= 8 { 0 } else { out[0] - 8 };
            }
        };
    };
}

inst!(1);
inst!(2);
inst!(3);
inst!(4);

/// Offsets inside a member list: `[size, next_off, item0_off, item_stride]`.
#[no_mangle]
pub extern "C" fn stack_layout(out: &mut [usize; 4]) {
    let mut s: microstack::Stack<usize, 16> = microstack::Stack::new();
    let base = std::ptr::addr_of!(s) as usize;
    s.push(5);
    s.push(6);
    let mut it = s.iter();
    let i0 = it.next().unwrap() as *const usize as usize;
    let i1 = it.next().unwrap() as *const usize as usize;
    out[0] = std::mem::size_of_val(&s);
    out[2] = i0 - base;
    out[3] = i1 - i0;
    out[1] = if out[2] >= 8 { 0 } else { out[0] - 8 };
}



unsafe fn text<'a>(p: *const u8, len: usize) -> &'a str {
    std::str::from_utf8_unchecked(std::slice::from_raw_parts(p, len))
}

#[no_mangle]
pub unsafe extern "C" fn label_parse(p: *const u8, len: usize, out: *mut Label) -> bool {
    match Label::from_str(text(p, len)) {
        Ok(l) => {
            out.write(l);
            true
        }
        Err(_) => false,
    }
}
#[no_mangle]
pub unsafe extern "C" fn label_print(l: &Label, out: *mut String) {
    out.write(l.to_string());
}
#[no_mangle]
pub unsafe extern "C" fn label_greek(out: *mut Label, c: u32) {
    out.write(Label::Greek(char::from_u32_unchecked(c)));
}
#[no_mangle]
pub unsafe extern "C" fn label_alpha(out: *mut Label, n: usize) {
    out.write(Label::Alpha(n));
}
#[no_mangle]
pub unsafe extern "C" fn label_str(out: *mut Label, c: &[u32; 8]) {
    let mut a = [' '; 8];
    for i in 0..8 {
        a[i] = char::from_u32_unchecked(c[i]);
    }
    out.write(Label::Str(a));
}
#[no_mangle]
pub extern "C" fn label_eq(a: &Label, b: &Label) -> bool {
    a == b
}
/// Variant (0 Greek, 1 Alpha, 2 Str) and payload of a label, as plain words.
#[no_mangle]
pub extern "C" fn label_view(a: &Label, out: &mut [u64; 8]) -> u32 {
    match a {
        Label::Greek(c) => {
            out[0] = u64::from(u32::from(*c));
            0
        }
        Label::Alpha(n) => {
            out[0] = *n as u64;
            1
        }
        Label::Str(s) => {
            for i in 0..8 {
                out[i] = u64::from(u32::from(s[i]));
            }
            2
        }
    }
}

/// What `std::fs::read` returns for a file whose bytes the executor holds (its stub calls this).
#[no_mangle]
pub unsafe extern "C" fn fake_read(out: *mut std::io::Result<Vec<u8>>, p: *mut u8, len: usize, cap: usize) {
    out.write(Ok(Vec::from_raw_parts(p, len, cap)));
}
#[no_mangle]
pub extern "C" fn string_view(s: &String, p: &mut *const u8) -> usize {
    *p = s.as_ptr();
    s.len()
}
#[no_mangle]
pub unsafe extern "C" fn string_drop(s: *mut String) {
    std::ptr::drop_in_place(s);
}

#[no_mangle]
pub unsafe extern "C" fn hex_inline(out: *mut Hex, bytes: &[u8; 8], len: usize) {
    out.write(Hex::Bytes(*bytes, len));
}
#[no_mangle]
pub unsafe extern "C" fn hex_vector(out: *mut Hex, p: *const u8, len: usize) {
    out.write(Hex::Vector(std::slice::from_raw_parts(p, len).to_vec()));
}
/// `Hex::from_vec`, the constructor the script parser uses.
#[no_mangle]
pub unsafe extern "C" fn hex_from_vec(out: *mut Hex, p: *const u8, len: usize) {
    out.write(Hex::from_vec(std::slice::from_raw_parts(p, len).to_vec()));
}
#[no_mangle]
pub extern "C" fn hex_view(h: &Hex, p: &mut *const u8) -> usize {
    let b = h.bytes();
    *p = b.as_ptr();
    b.len()
}
#[no_mangle]
pub unsafe extern "C" fn hex_print(h: &Hex, out: *mut String) {
    out.write(h.print());
}
#[no_mangle]
pub unsafe extern "C" fn hex_parse(p: *const u8, len: usize, out: *mut Hex) -> bool {
    match Hex::from_str(text(p, len)) {
        Ok(h) => {
            out.write(h);
            true
        }
        Err(_) => false,
    }
}
#[no_mangle]
pub extern "C" fn hex_eq(a: &Hex, b: &Hex) -> bool {
    a == b
}
#[no_mangle]
pub unsafe extern "C" fn hex_drop(h: *mut Hex) {
    std::ptr::drop_in_place(h);
}
