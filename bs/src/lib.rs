//! Thin `extern "C"` wrappers around the text-producing and text-parsing parts of
//! `sodg` (Label and Hex). Built with `-Zbuild-std` so that the executor has the IR
//! of `core::fmt`, `core::str` and `core::num` as well. No logic of their own.
#![allow(clippy::missing_safety_doc, improper_ctypes_definitions)]

use sodg::{Hex, Label};
use std::str::FromStr;

unsafe fn text<'a>(p: *const u8, len: usize) -> &'a str {
    std::str::from_utf8_unchecked(std::slice::from_raw_parts(p, len))
}

#[no_mangle]
pub unsafe extern "C" fn label_parse(p: *const u8, len: usize, out: *mut Label) -> bool {
    match Label::from_str(text(p, len)) {
        Ok(l) => {
            out.write(l);
            true
        }
        Err(_) => false,
    }
}
#[no_mangle]
pub unsafe extern "C" fn label_print(l: &Label, out: *mut String) {
    out.write(l.to_string());
}
#[no_mangle]
pub unsafe extern "C" fn label_greek(out: *mut Label, c: u32) {
    out.write(Label::Greek(char::from_u32_unchecked(c)));
}
#[no_mangle]
pub unsafe extern "C" fn label_alpha(out: *mut Label, n: usize) {
    out.write(Label::Alpha(n));
}
#[no_mangle]
pub unsafe extern "C" fn label_str(out: *mut Label, c: &[u32; 8]) {
    let mut a = [' '; 8];
    for i in 0..8 {
        a[i] = char::from_u32_unchecked(c[i]);
    }
    out.write(Label::Str(a));
}
#[no_mangle]
pub extern "C" fn label_eq(a: &Label, b: &Label) -> bool {
    a == b
}
/// Variant (0 Greek, 1 Alpha, 2 Str) and payload of a label, as plain words.
#[no_mangle]
pub extern "C" fn label_view(a: &Label, out: &mut [u64; 8]) -> u32 {
    match a {
        Label::Greek(c) => {
            out[0] = u64::from(u32::from(*c));
            0
        }
        Label::Alpha(n) => {
            out[0] = *n as u64;
            1
        }
        Label::Str(s) => {
            for i in 0..8 {
                out[i] = u64::from(u32::from(s[i]));
            }
            2
        }
    }
}

#[no_mangle]
pub extern "C" fn string_view(s: &String, p: &mut *const u8) -> usize {
    *p = s.as_ptr();
    s.len()
}
#[no_mangle]
pub unsafe extern "C" fn string_drop(s: *mut String) {
    std::ptr::drop_in_place(s);
}

#[no_mangle]
pub unsafe extern "C" fn hex_inline(out: *mut Hex, bytes: &[u8; 8], len: usize) {
    out.write(Hex::Bytes(*bytes, len));
}
#[no_mangle]
pub unsafe extern "C" fn hex_vector(out: *mut Hex, p: *const u8, len: usize) {
    out.write(Hex::Vector(std::slice::from_raw_parts(p, len).to_vec()));
}
#[no_mangle]
pub extern "C" fn hex_view(h: &Hex, p: &mut *const u8) -> usize {
    let b = h.bytes();
    *p = b.as_ptr();
    b.len()
}
#[no_mangle]
pub unsafe extern "C" fn hex_print(h: &Hex, out: *mut String) {
    out.write(h.print());
}
#[no_mangle]
pub unsafe extern "C" fn hex_parse(p: *const u8, len: usize, out: *mut Hex) -> bool {
    match Hex::from_str(text(p, len)) {
        Ok(h) => {
            out.write(h);
            true
        }
        Err(_) => false,
    }
}
#[no_mangle]
pub extern "C" fn hex_eq(a: &Hex, b: &Hex) -> bool {
    a == b
}
#[no_mangle]
pub unsafe extern "C" fn hex_drop(h: *mut Hex) {
    std::ptr::drop_in_place(h);
}
