"""One-step obligations for the graph operations (engine S).

Every obligation starts from the fully symbolic pre-state of `graph.World.symbolic`
constrained by Inv, executes ONE real operation with symbolic arguments on the IR,
and asks the solver whether a clause of the step relation can fail.  Clauses carry
the ids of the properties they serve; a check reports only its own clauses."""
import z3

from . import graph as G
from .graph import NSLOT, U, STORED, TAKEN, EMPTY, inv, SymLabel, SymHex
from .vm import to_bv, cells_to_val, cell_eq, cell_term, Inconclusive, Terminal


def bits_for(cap):
    return max(1, (cap - 1).bit_length())


class Ctx:
    """symbolic pre-state of one configuration, with Inv assumed"""

    def __init__(s, env, N, cap, assume_inv=True, heap_lens=(9, 10), fixed=None):
        s.env = env
        s.N, s.cap = N, cap
        s.w = env.world(N, cap, heap_lens=tuple(heap_lens))
        s.vm = s.w.vm
        st, y = s.w.symbolic(fixed=fixed)
        s.y = y
        s.pre = st
        s.inv_pre = inv(s.w, st)
        if assume_inv:
            for name, c in s.inv_pre:
                st.assume(c)
        # I6: labels of one vertex are pairwise distinct
        for i in range(cap):
            for j in range(N):
                for k in range(j + 1, N):
                    st.assume(z3.Implies(z3.UGT(y.elen[i], k), z3.Not(y.ekey[i][j].eq(y.ekey[i][k]))))
        if not s.vm.solver.check(st.pc, want_model=False)[0]:
            raise Inconclusive("Inv is unsatisfiable for N=%d cap=%d (vacuous)" % (N, cap))
        s.buf_owner = {}
        for i in range(cap):
            for bb in getattr(y.data[i], 'bufs', []):
                s.buf_owner[bb] = i
        # ghost state of C01: linked is an equivalence on ids, bound a set
        s.linked = [[z3.Bool('lnk_%d_%d' % (min(i, j), max(i, j))) if i != j else z3.BoolVal(True) for j in range(cap)] for i in range(cap)]
        s.bound = [z3.Bool('bound_%d' % i) for i in range(cap)]
        gh = []
        for i in range(cap):
            for j in range(cap):
                for k in range(cap):
                    if len({i, j, k}) == 3:
                        gh.append(z3.Implies(z3.And(s.linked[i][j], s.linked[j][k]), s.linked[i][k]))
        for i in range(cap):
            gh.append(z3.Implies(z3.UGE(y.tag[i], 2), s.bound[i]))
            for j in range(i + 1, cap):
                gh.append(z3.Implies(z3.And(y.tag[i] == y.tag[j], z3.UGE(y.tag[i], 2)), s.linked[i][j]))
        s.ghost = gh
        for gcon in gh:
            st.assume(gcon)
        env.account(s.w, count=False)

    # ------------------------------------------------------------ variables
    def vid(s, name, in_range=True, fixed=None):
        """a vertex id argument: a given constant (case split by the caller), below the capacity
        (narrow variable) or any 64-bit value"""
        if fixed is not None:
            return U(fixed), z3.BoolVal(True)
        if in_range:
            b = bits_for(s.cap)
            v = z3.ZeroExt(64 - b, z3.BitVec(name, b))
            return v, z3.ULT(v, s.cap)
        v = z3.BitVec(name, 64)
        return v, z3.BoolVal(True)

    @staticmethod
    def arg(v):
        return v.as_long() if z3.is_bv_value(v) else v

    def T(s, st=None):
        st = st or s.pre
        return [to_bv(s.w.tag(st, i), 64) for i in range(s.cap)]

    def P(s, st=None):
        st = st or s.pre
        return [to_bv(s.w.pers(st, i), 8) for i in range(s.cap)]

    def E(s, st=None):
        st = st or s.pre
        return [to_bv(s.w.elen(st, i), 64) for i in range(s.cap)]

    def CNT(s, st=None):
        st = st or s.pre
        return [to_bv(s.w.cnt(st, b), 64) for b in range(NSLOT)]

    def CTR(s, st=None):
        st = st or s.pre
        return [to_bv(s.w.ctr(st, b), 64) for b in range(NSLOT)]

    def ITEM(s, st, b, k):
        return to_bv(s.w.item(st, b, k), 64)

    def at(s, terms, idx, bits=64):
        return s.w.sel(terms, idx, bits)

    # ------------------------------------------------------------ frame
    def regions(s):
        """named cell ranges of the three arenas, the header and the data buffers"""
        w = s.w
        if hasattr(s, '_regions'):
            return s._regions
        R = {}
        for i in range(s.cap):
            base = w.v0 + i * w.v_stride
            R[('tag', i)] = (w.a_tag(i), 8)
            R[('pers', i)] = (w.a_pers(i), 1)
            R[('data', i)] = (w.a_data(i), w.sz_hex)
            R[('elen', i)] = (w.a_elen(i), 8)
            for j in range(s.N):
                R[('ekey', i, j)] = (w.a_ekey(i, j), w.sz_label)
                R[('eval', i, j)] = (w.a_eval(i, j), 8)
        for b in range(NSLOT):
            R[('cnt', b)] = (w.a_cnt(b), 8)
            R[('items', b)] = (w.a_item(b, 0), NSLOT * w.k_istride)
            R[('ctr', b)] = (w.a_ctr(b), 8)
        R[('pos', 0)] = (w.f_nextv, 8)
        s._regions = R
        s._rindex = {}
        for key, (a, n) in R.items():
            for x in range(a, a + n):
                s._rindex[x] = key
        return R

    def region_of(s, addr):
        s.regions()
        return s._rindex.get(addr, ('other', 0))

    def frame(s, post, allowed):
        """formula: every cell that existed before the call and is not in an allowed region is
        unchanged, and every allocation that was live still is.  `allowed(key)` returns True
        (may change), False/None (must not), or a z3 Bool guard under which it may change.
        Returns (formula, number of cells that differ syntactically)."""
        pre = s.pre
        conj = {}
        ndiff = 0
        seen = set()

        def add(key, f):
            conj.setdefault(key if len(key) < 3 else key[:2], []).append(f)
        for pg, a0 in pre.mem.pages.items():
            if a0.base in seen:
                continue
            seen.add(a0.base)
            if a0.kind not in ('heap', 'global'):
                continue
            if a0.name and a0.name.startswith(('scratch', 'lbl.', 'hex.', 'hexsrc', 'lay', 'probe', 'tmpG', 'out', 'arg.')):
                continue
            a1 = post.mem.pages.get(pg)
            if a1 is a0:
                continue
            if a1 is None:
                continue
            deadc = None
            if a0.live and (not a1.live or a1.dead is not None):
                deadc = z3.BoolVal(True) if not a1.live else a1.dead
                g = allowed(('free', a0.base))
                if g is not True:
                    add(('free', a0.name or hex(a0.base)), z3.Not(deadc) if (g is False or g is None) else z3.Implies(deadc, g))
                if not a1.live:
                    continue
            c0 = a0.cells
            c1 = a1.cells
            for off in range(a0.size):
                x = c0[off]
                y = c1[off]
                if x is y:
                    continue
                e = cell_eq(x, y)
                if e:
                    continue
                ndiff += 1
                key = s.region_of(a0.base + off)
                if key[0] == 'other':
                    key = ('other', '%s+%d' % (a0.name or hex(a0.base), off))
                g = allowed(key)
                if g is True:
                    continue
                if x is None or y is None:
                    eq = z3.BoolVal(False)
                else:
                    eq = cell_term(x) == cell_term(y)
                f_ = eq if (g is False or g is None) else z3.Or(g, eq)
                add(key, f_ if deadc is None else z3.Or(deadc, f_))
        return [('frame:%s' % '.'.join(str(k) for k in key), z3.And(*fs)) for key, fs in sorted(conj.items(), key=lambda kv: str(kv[0]))], ndiff

    # ------------------------------------------------------------ verdicts
    def refute(s, st, clauses, call, props_of, extra_calls=()):
        """clauses: list of (name, formula).  Asks for a model of pc && !(all clauses); records a
        violation per failing clause (at most one model per call of refute)."""
        vm = s.vm
        # clauses that are literally assumptions (an untouched Inv conjunct) or simplify to true need no solver
        assumed = {c.get_id() for c in st.pc}
        pre_inv = {f.get_id() for _, f in s.inv_pre}
        todo = []
        for n, c in clauses:
            if c.get_id() in pre_inv or c.get_id() in assumed:
                continue
            c2 = z3.simplify(c)
            if z3.is_true(c2) or c2.get_id() in assumed:
                continue
            todo.append((n, c))
        clauses = todo
        good = True
        rounds = 0
        while clauses:
            conj = z3.And(*[c for _, c in clauses])
            ok, model = vm.solver.oneshot(st.pc, z3.Not(conj))
            if not ok:
                break
            good = False
            failing = []
            for name, c in clauses:
                try:
                    if not z3.is_true(model.eval(c, model_completion=True)):
                        failing.append(name)
                except z3.Z3Exception:
                    failing.append(name)
            if not failing:
                failing = [clauses[0][0]]
            s.report(model, failing, call, props_of, extra_calls)
            # look for further violations among the clauses that held in this model (another property may own
            # them); clauses of a family that already failed are dropped unless another property owns them
            rounds += 1
            if rounds >= 6:
                break
            seen_props = {p for f in failing for p in props_of(f)}
            fams = {f.split(':')[0] for f in failing}
            clauses = [(n, c) for n, c in clauses if n not in failing and
                       (n.split(':')[0] not in fams or not set(props_of(n)) <= seen_props)]
        return good

    def concrete_call(s, call, model):
        ev = lambda t: model.eval(t, model_completion=True).as_long() if z3.is_expr(t) else t
        out = {}
        for k, v in call.items():
            if isinstance(v, SymLabel):
                out[k] = v.concrete(model)
            elif isinstance(v, SymHex):
                out[k] = v.concrete(model)
            elif z3.is_expr(v):
                out[k] = ev(v)
            elif callable(v):
                out[k] = v(model)        # a part of the call that is read off the model (e.g. the predicate's table)
            else:
                out[k] = v
        return out

    def report(s, model, failing, call, props_of, extra_calls=(), kind='clause', detail=None):
        props = sorted({p for name in failing for p in props_of(name)})
        cc = s.concrete_call(call, model)
        job = {'n': s.N, 'cap': s.cap, 'pre': s.y.concrete(model), 'calls': [cc] + [s.concrete_call(c, model) for c in extra_calls]}
        s.env.violation(kind=kind, clauses=failing, props=props, call=cc, job=job, detail=detail)

    def terminal_violation(s, o, call, props, what):
        """a path that ended in a panic / memory error although it must not"""
        model = s.vm.get_model(o.st)
        if model is None:
            return
        cc = s.concrete_call(call, model)
        job = {'n': s.N, 'cap': s.cap, 'pre': s.y.concrete(model), 'calls': [cc]}
        s.env.violation(kind=o.kind, clauses=[what], props=sorted(props), call=cc, job=job, detail=o.detail)


# clause name -> properties
PROPS = {
    'returns': ('C02', 'C07'),
    'no-removal': ('C01',),
    'ghost': ('C01',),
    'removal-safe': ('C01',),
    'exact': ('C02', 'C19',),
    'groups': ('C02', 'C19',),
    'inv': ('C02', 'C06'),
    'slot-released': ('C06',),
    'slot-formed': ('C06',),
    'add-present-unchanged': ('C04', 'C19',),
    'add-absent-blank': ('C04', 'C03', 'C19'),
    'add-frame': ('C04',),
    'frame': ('C03', 'C02', 'C01', 'C19'),
    'result': ('C03', 'C19',),
    'persistence': ('C03', 'C02', 'C19',),
    'edges': ('C03', 'C19',),
    'fresh': ('C05',),
    'dangling': ('C07',),
    'deterministic': ('C19',),
    'order': ('C19',),
    'pos': ('C05',),
    'reader-result': ('C03', 'C19',),
    'keys': ('C01', 'C19',),
    'reader-pure': ('C01', 'C03'),
    'clone-equal': ('C10', 'C19',),
    'clone-independent': ('C10',),
    'clone-pure': ('C10', 'C01'),
}


def props_of(name):
    if name.startswith('invsafe:'):
        return ('C01',)
    if name.startswith('inv:') and not name.startswith('inv:I4'):
        return ('C02', 'C06', 'C01')
    ps = PROPS[name.split(':')[0]]
    if name.startswith(('frame:cnt', 'frame:items', 'frame:ctr')):
        ps = ps + ('C06',)
    if name.startswith(('frame:free', 'add-frame:free', 'reader-pure:free', 'clone-pure:free')):
        ps = ps + ('C07',)
    if name.startswith(('frame:pos', 'add-frame:pos', 'clone-equal:pos')):
        ps = ps + ('C05',)
    return ps


def inv_post(c, post):
    """Inv on the post-state, clause by clause.  Besides the full Inv (C02, C06) the weaker form that
    GC safety needs (C01): structure of the member lists as is, but counter >= recount -- a counter
    that is too high only delays a collection, one that is too low collects a vertex whose datum
    was never read."""
    out = []
    for n, f in inv(c.w, post):
        out.append(('inv:' + n, f))
    for n, f in inv(c.w, post, counters='ge'):
        if n.startswith('I4'):
            out.append(('invsafe:' + n, f))
    return out


# ====================================================================== add
def ob_add(env, N, cap, v=None):
    c = Ctx(env, N, cap)
    w, y, vm = c.w, c.y, c.vm
    v, vr = c.vid('v', fixed=v)
    st = c.pre.fork()
    st.assume(vr)
    call = {'op': 'add', 'v': v}
    outs = vm.run(st, w.pfx + 'add', [w.g, c.arg(v)])
    T = c.T(); P = c.P(); E = c.E()
    for o in outs:
        if o.kind != 'ret':
            c.terminal_violation(o, call, PROPS['returns'], 'returns')
            continue
        post = o.st
        T1 = c.T(post); P1 = c.P(post); E1 = c.E(post)
        fresh = [z3.And(v == i, T[i] == 0) for i in range(cap)]
        cl = []
        cl.append(('no-removal', z3.And(*[z3.Implies(T[i] != 0, T1[i] != 0) for i in range(cap)])))
        cl.append(('add-absent-blank', z3.And(*[z3.Implies(fresh[i], z3.And(T1[i] == 1, E1[i] == 0, P1[i] == EMPTY)) for i in range(cap)])))
        # everything else is untouched: a vertex slot may change only if it is the fresh one
        def allowed(key):
            if key[0] in ('tag', 'pers', 'data', 'elen', 'ekey', 'eval'):
                return fresh[key[1]]
            if key[0] == 'free':
                return z3.Or(*fresh)       # the stale heap datum of the re-used slot may be dropped
            return False
        fr, nd = c.frame(post, allowed)
        cl.append(('add-present-unchanged', z3.And(*[z3.Implies(z3.Not(fresh[i]), z3.And(T1[i] == T[i], P1[i] == P[i], E1[i] == E[i])) for i in range(cap)])))
        cl += [('add-' + n, f) for n, f in fr]
        cl += dangling(c, post)
        cl += inv_post(c, post)
        c.refute(post, cl, call, props_of)
        env.cover('add on a present grouped vertex', lambda: vm.feasible(post, z3.And(*[z3.Implies(v == i, z3.UGE(T[i], 2)) for i in range(cap)])))
        env.cover('add on a dirty absent slot', lambda: vm.feasible(post, z3.Or(*[z3.And(fresh[i], E[i] != 0, P[i] != 0) for i in range(cap)])))
    env.sample({'op': 'add(v)', 'N': N, 'cap': cap, 'paths': len(outs), 'outcomes': sorted({o.kind for o in outs})})
    env.account(w)


# ====================================================================== next_id
def ob_next_id(env, N, cap):
    c = Ctx(env, N, cap)
    w, y, vm = c.w, c.y, c.vm
    st = c.pre.fork()
    T = c.T()
    pos = to_bv(w.pos(st), 64)
    pre_ok = z3.Or(*[z3.And(T[i] == 0, z3.ULE(pos, i)) for i in range(cap)])
    call = {'op': 'next_id'}
    # with the precondition
    s1 = st.fork()
    s1.assume(pre_ok)
    outs = vm.run(s1, w.pfx + 'next_id', [w.g])
    for o in outs:
        if o.kind != 'ret':
            c.terminal_violation(o, call, ('C05',), 'fresh')
            continue
        post = o.st
        r = to_bv(o.value, 64)
        pos1 = to_bv(w.pos(post), 64)
        first = z3.And(*[z3.Implies(r == i, z3.And(*[z3.Not(z3.And(T[j] == 0, z3.ULE(pos, j))) for j in range(i)])) for i in range(cap)])
        cl = [('fresh', z3.And(z3.ULT(r, cap), c.at(T, r) == 0, z3.UGE(r, pos))),
              ('deterministic:first-absent-id', z3.And(first, z3.ULT(r, cap), z3.UGE(r, pos), c.at(T, r) == 0)),
              ('pos', z3.And(z3.UGT(pos1, r), z3.UGE(pos1, pos), z3.ULE(pos1, cap)))]
        fr, nd = c.frame(post, lambda key: key[0] == 'pos')
        cl += fr
        c.refute(post, cl, call, props_of)
        env.cover('next_id skips a present id', lambda: vm.feasible(post, z3.UGT(r, pos)))
    # without it the only outcome is a panic (no id invented)
    s2 = st.fork()
    s2.assume(z3.Not(pre_ok))
    outs2 = vm.run(s2, w.pfx + 'next_id', [w.g])
    for o in outs2:
        if o.kind == 'ret':
            post = o.st
            r = to_bv(o.value, 64)
            c.refute(post, [('fresh', z3.And(z3.ULT(r, cap), c.at(T, r) == 0, z3.UGE(r, pos)))], call, props_of)
        elif o.kind == 'memerr':
            c.terminal_violation(o, call, ('C07',), 'returns')
    env.sample({'op': 'next_id()', 'N': N, 'cap': cap, 'paths': len(outs) + len(outs2),
                'outcomes': sorted({o.kind for o in outs + outs2})})
    env.account(w)


# ====================================================================== helpers
def decode_hex(c, st, addr, want_ptr=False):
    """the byte string held by the Hex at addr, by running the real Hex::bytes on it:
    list of (condition, length term, [byte terms]) -- one entry per representation"""
    w, vm = c.w, c.vm
    pp = w.scratch(st, 8, 'scratch.pp')
    outs = vm.run(st, '@hex_view', [addr, pp])
    res = []
    for o in outs:
        if o.kind != 'ret':
            raise Inconclusive("hex_view ended in %r" % (o,))
        cond = z3.And(*o.st.pc[len(st.pc):]) if len(o.st.pc) > len(st.pc) else z3.BoolVal(True)
        n = to_bv(o.value, 64)
        ptr = w.rd(o.st, pp, 8)
        nmax = 8 if not vm.feasible(o.st, z3.UGT(n, 8)) else max(w.heap_lens)
        bs = []
        for k in range(nmax):
            # byte k is read under the guard "the string is longer than k" (the guard it is used under): a datum
            # whose heap length is still symbolic on this path has a buffer of 9 OR 10 bytes
            sk = o.st
            if not isinstance(ptr, int):
                sk = o.st.fork()
                sk.assume(z3.UGT(n, k))
                if not vm.solver.check(sk.pc, want_model=False)[0]:
                    bs.append(None)
                    continue
            try:
                cells = vm.load_bytes(sk, ptr + k, 1)
                bs.append(cell_term(cells[0]) if cells[0] is not None else None)
            except Terminal:
                bs.append(None)
        res.append((cond, n, bs, ptr) if want_ptr else (cond, n, bs))
    return res


def hex_equals(dec, hx):
    """formula: the decoded byte string equals the abstract SymHex hx"""
    cs = []
    for cond, n, bs in dec:
        eq = [n == hx.length()]
        for k, b in enumerate(bs):
            if b is None:
                eq.append(z3.ULE(n, k))
            else:
                eq.append(z3.Implies(z3.UGT(n, k), b == hx.byte(k)))
        eq.append(z3.ULE(n, len(bs)))
        cs.append(z3.Implies(cond, z3.And(*eq)))
    return z3.And(*cs)


def label_cells_eq(c, cells, img):
    """cells hold the same label image as img (cellwise; both fully initialised images)"""
    cs = []
    for x, y in zip(cells, img):
        e = cell_eq(x, y)
        if e:
            continue
        if x is None or y is None:
            if x is None and y is None:
                continue
            return z3.BoolVal(False)
        cs.append(cell_term(x) == cell_term(y))
    return z3.And(*cs) if cs else z3.BoolVal(True)


def dangling(c, post):
    """C07: no vertex slot (present or not) may keep a pointer to a datum buffer that this call freed --
    the next drop of that slot would free it again.  Only evaluated when a buffer changed liveness."""
    w, vm = c.w, c.vm
    freed = False
    for base in c.buf_owner:
        a1 = post.mem.lookup(base)
        if a1 is not None and (not a1.live or a1.dead is not None):
            freed = True
            break
    if not freed:
        return []
    out = []
    for i in range(c.cap):
        conds = []
        try:
            dec = decode_hex(c, post, w.a_data(i), want_ptr=True)
        except Terminal:
            out.append(('dangling:data%d' % i, z3.BoolVal(False)))
            continue
        for cond, n, bs, ptr in dec:
            s2 = post.fork()
            s2.assume(cond)
            s2.assume(z3.UGT(n, 8))
            if not vm.solver.check(s2.pc, want_model=False)[0]:
                continue
            ptrs = [ptr] if isinstance(ptr, int) else vm.values_of(s2, ptr, exact=True)
            for pv in ptrs:
                a = post.mem.lookup(pv)
                here = z3.And(cond, z3.UGT(n, 8), (to_bv(ptr, 64) == pv))
                if a is None or not a.live:
                    conds.append(z3.Not(here))
                elif a.dead is not None:
                    conds.append(z3.Implies(here, z3.Not(a.dead)))
        out.append(('dangling:data%d' % i, z3.And(*conds) if conds else z3.BoolVal(True)))
    return out


# ====================================================================== put
def ob_put(env, N, cap, v=None):
    c = Ctx(env, N, cap)
    w, y, vm = c.w, c.y, c.vm
    v, vr = c.vid('v', fixed=v)
    st = c.pre.fork()
    d = SymHex('arg')
    st.assume(d.wf())
    st, da = w.make_hex(st, d)
    st.mem.lookup(da).name = 'arg.d'
    st.assume(vr)
    T = c.T(); P = c.P(); E = c.E(); CTR = c.CTR()
    st.assume(c.at(T, v) != 0)
    c.pre = st            # the frame is taken against the state that already holds the argument
    call = {'op': 'put', 'v': v, 'd': d}
    outs = vm.run(st, w.pfx + 'put', [w.g, c.arg(v), da])
    b = c.at(T, v)
    for o in outs:
        if o.kind != 'ret':
            c.terminal_violation(o, call, PROPS['returns'], 'returns')
            continue
        post = o.st
        T1 = c.T(post); P1 = c.P(post)
        cl = [('no-removal', z3.And(*[T1[i] == T[i] for i in range(cap)])),
              ('persistence', z3.And(*[P1[i] == z3.If(v == i, U(STORED, 8), P[i]) for i in range(cap)]))]

        def allowed(key):
            k = key[0]
            if k in ('data', 'pers'):
                return v == key[1]
            if k == 'ctr':
                return True if key[1] < 2 else (b == key[1])
            if k == 'free':
                i = c.buf_owner.get(key[1])
                return False if i is None else (v == i)
            return False
        fr, nd = c.frame(post, allowed)
        cl += fr
        # the datum now held by v is the argument, byte for byte (decoded by the real Hex::bytes)
        res = []
        for i in range(cap):
            if not vm.feasible(post, v == i):
                continue
            s_i = post.fork()
            s_i.assume(v == i)
            dec = decode_hex(c, s_i, w.a_data(i))
            res.append(z3.Implies(v == i, hex_equals(dec, d)))
        cl.append(('result', z3.And(*res)))
        # the argument itself is untouched
        cl += inv_post(c, post)
        c.refute(post, cl, call, props_of)
        env.cover('put overwrites an unread datum', lambda: vm.feasible(post, c.at(P, v, 8) == STORED))
        env.cover('put on a grouped vertex', lambda: vm.feasible(post, z3.UGE(b, 2)))
        env.cover('put of a heap datum', lambda: vm.feasible(post, d.sel != 0))
    env.sample({'op': 'put(v,d)', 'N': N, 'cap': cap, 'paths': len(outs), 'outcomes': sorted({o.kind for o in outs})})
    env.account(w)


# ====================================================================== data
def ob_data(env, N, cap, v=None):
    c = Ctx(env, N, cap)
    w, y, vm = c.w, c.y, c.vm
    v, vr = c.vid('v', fixed=v)
    st = c.pre.fork()
    out = w.scratch(st, w.sz_hex, 'out')
    st.assume(vr)
    T = c.T(); P = c.P(); CNT = c.CNT(); CTR = c.CTR()
    b = c.at(T, v)
    pv = c.at(P, v, 8)
    st.assume(b != 0)
    c.pre = st
    call = {'op': 'data', 'v': v}
    outs = vm.run(st, w.pfx + 'data', [w.g, c.arg(v), out])
    others_unread = z3.Or(*[z3.And(v != u, T[u] == b, P[u] == STORED) for u in range(cap)])
    last = z3.And(pv == STORED, z3.UGE(b, 2), z3.Not(others_unread))
    for o in outs:
        if o.kind != 'ret':
            c.terminal_violation(o, call, PROPS['returns'], 'returns')
            continue
        post = o.st
        T1 = c.T(post); P1 = c.P(post); CNT1 = c.CNT(post); CTR1 = c.CTR(post)
        some = o.value
        some_b = (to_bv(some, 8) & 1) == 1 if not isinstance(some, z3.BoolRef) else some
        cl = [('result:none-iff-empty', some_b == (pv != EMPTY))]
        if vm.feasible(post, some_b):
            s2 = post.fork()
            s2.assume(some_b)
            dec = decode_hex(c, s2, out)
            cl.append(('result:bytes', z3.Implies(some_b, z3.And(*[z3.Implies(v == i, hex_equals(dec, y.data[i])) for i in range(cap)]))))
        gone = [z3.And(last, T[i] == b) for i in range(cap)]      # collected by this call: what their slots hold afterwards is not observable
        cl.append(('persistence', z3.And(*[z3.Implies(z3.Not(gone[i]), P1[i] == z3.If(z3.And(v == i, P[i] == STORED), U(TAKEN, 8), P[i])) for i in range(cap)])))
        cl.append(('exact', z3.And(*[T1[i] == z3.If(z3.And(last, T[i] == b), U(0), T[i]) for i in range(cap)])))
        cl.append(('removal-safe', z3.And(*[
            z3.Implies(z3.And(T[i] != 0, T1[i] == 0),
                       z3.And(T[i] == b, z3.UGE(b, 2), pv == STORED, P1[i] != STORED, c.bound[i],
                              z3.Or(*[z3.And(v == k, c.linked[i][k]) for k in range(cap)])))
            for i in range(cap)])))
        cl.append(('slot-released', z3.Implies(last, z3.And(c.at(CNT1, b) == 0, c.at(CTR1, b) == 0))))

        def allowed(key):
            k = key[0]
            if k == 'tag':
                return gone[key[1]]
            if k == 'pers':
                return z3.Or(v == key[1], gone[key[1]])
            if k in ('data', 'elen', 'ekey', 'eval'):
                return gone[key[1]]
            if k == 'free':
                i = c.buf_owner.get(key[1])
                return False if i is None else gone[i]
            if k in ('cnt', 'ctr'):
                if key[1] < 2:
                    return True if k == 'ctr' else False
                return b == key[1]
            if k == 'items' and key[1] >= 2:
                return z3.And(last, b == key[1])      # stale members of a collected slot are don't-care
            return False
        fr, nd = c.frame(post, allowed)
        cl += fr
        cl += dangling(c, post)
        cl += inv_post(c, post)
        c.refute(post, cl, call, props_of)
        env.cover('data collects a group of two or more', lambda: vm.feasible(post, z3.And(last, z3.UGE(c.at(CNT, b), 2))))
        env.cover('data decrements without collecting', lambda: vm.feasible(post, z3.And(pv == STORED, z3.UGE(b, 2), others_unread)))
        env.cover('data on an ungrouped vertex with unread datum', lambda: vm.feasible(post, z3.And(pv == STORED, b == 1)))
        env.cover('data read again', lambda: vm.feasible(post, pv == TAKEN))
        env.cover('data of a heap datum', lambda: vm.feasible(post, z3.And(some_b, z3.Or(*[z3.And(v == i, y.data[i].sel != 0) for i in range(cap)]))))
    env.sample({'op': 'data(v)', 'N': N, 'cap': cap, 'paths': len(outs), 'outcomes': sorted({o.kind for o in outs})})
    env.account(w)


# ====================================================================== bind
def ob_bind(env, N, cap, v1=None, v2=None):
    c = Ctx(env, N, cap)
    w, y, vm = c.w, c.y, c.vm
    v1, r1 = c.vid('v1', fixed=v1)
    v2, r2 = c.vid('v2', fixed=v2)
    st = c.pre.fork()
    a = SymLabel('arg')
    st.assume(a.wf())
    st, la = w.make_label(st, a)
    st.mem.lookup(la).name = 'arg.a'
    aimg = st.mem.read_cells(la, w.sz_label)
    st.assume(r1); st.assume(r2); st.assume(v1 != v2)
    T = c.T(); P = c.P(); E = c.E(); CNT = c.CNT(); CTR = c.CTR()
    b1 = c.at(T, v1); b2 = c.at(T, v2)
    st.assume(b1 != 0); st.assume(b2 != 0)
    # within the limits
    hit = [[z3.And(z3.UGT(E[i], j), y.ekey[i][j].eq(a)) for j in range(N)] for i in range(cap)]
    anyhit = [z3.Or(*hit[i]) for i in range(cap)]
    new = [z3.Not(anyhit[i]) for i in range(cap)]
    st.assume(z3.And(*[z3.Implies(z3.And(v1 == i, new[i]), z3.ULT(E[i], N)) for i in range(cap)]))
    empty_slot = z3.Or(*[CNT[b] == 0 for b in range(2, NSLOT)])
    st.assume(z3.Implies(z3.And(b1 == 1, b2 == 1), empty_slot))
    st.assume(z3.Implies(z3.And(b1 == 1, z3.UGE(b2, 2)), z3.ULT(c.at(CNT, b2), NSLOT)))
    st.assume(z3.Implies(z3.And(z3.UGE(b1, 2), b2 == 1), z3.ULT(c.at(CNT, b1), NSLOT)))
    c.pre = st
    call = {'op': 'bind', 'v1': v1, 'v2': v2, 'a': a}
    outs = vm.run(st, w.pfx + 'bind', [w.g, c.arg(v1), c.arg(v2), la])
    both1 = z3.And(b1 == 1, b2 == 1)
    j12 = z3.And(b1 == 1, z3.UGE(b2, 2))
    j21 = z3.And(z3.UGE(b1, 2), b2 == 1)
    for o in outs:
        if o.kind != 'ret':
            c.terminal_violation(o, call, PROPS['returns'], 'returns')
            continue
        post = o.st
        T1 = c.T(post); P1 = c.P(post); E1 = c.E(post); CNT1 = c.CNT(post)
        n1 = c.at(T1, v1); n2 = c.at(T1, v2)
        cl = []
        cl.append(('no-removal', z3.And(*[z3.Implies(T[i] != 0, T1[i] != 0) for i in range(cap)])))
        cl.append(('groups:others', z3.And(*[z3.Implies(z3.And(v1 != i, v2 != i), T1[i] == T[i]) for i in range(cap)])))
        cl.append(('groups:form', z3.Implies(both1, z3.And(n1 == n2, z3.UGE(n1, 2), c.at(CNT, n1) == 0))))
        cl.append(('slot-formed', z3.Implies(both1, z3.And(n1 == n2, z3.UGE(n1, 2), c.at(CNT, n1) == 0, c.at(CNT1, n1) == 2))))
        cl.append(('groups:join', z3.And(z3.Implies(j12, z3.And(n1 == b2, n2 == b2)), z3.Implies(j21, z3.And(n1 == b1, n2 == b1)))))
        cl.append(('groups:none', z3.Implies(z3.And(z3.UGE(b1, 2), z3.UGE(b2, 2)), z3.And(n1 == b1, n2 == b2))))
        # ghost: bind unions the two classes; I8 must hold again
        def lk(i, vx):
            return z3.Or(*[z3.And(vx == k, c.linked[i][k]) for k in range(cap)])
        gh = []
        for i in range(cap):
            gh.append(z3.Implies(z3.UGE(T1[i], 2), z3.Or(c.bound[i], v1 == i, v2 == i)))
            for j in range(i + 1, cap):
                l2 = z3.Or(c.linked[i][j], z3.And(lk(i, v1), lk(j, v2)), z3.And(lk(i, v2), lk(j, v1)))
                gh.append(z3.Implies(z3.And(T1[i] == T1[j], z3.UGE(T1[i], 2)), l2))
        cl.append(('ghost', z3.And(*gh)))
        # edges of v1.  C03: the label now leads to v2, every other label keeps its target, the count grows
        # iff the label was new -- wherever the pairs sit.  The positions (replace in place / append) are
        # asserted only for C19 (enumeration order must not depend on the configuration).
        ecl = []
        ocl = []
        for i in range(cap):
            g = v1 == i
            ecl.append(z3.Implies(g, E1[i] == z3.If(new[i], E[i] + 1, E[i])))
            ecl.append(z3.Implies(z3.Not(g), E1[i] == E[i]))
            post_pairs = [(w.ekey_cells(post, i, j), to_bv(w.etgt(post, i, j), 64)) for j in range(N)]
            pre_pairs = [(w.ekey_cells(c.pre, i, j), y.etgt[i][j]) for j in range(N)]
            # the bound label is there and leads to v2
            ecl.append(z3.Implies(g, z3.Or(*[z3.And(z3.UGT(E1[i], j2), post_pairs[j2][1] == v2,
                                                    z3.Or(label_cells_eq(c, post_pairs[j2][0], aimg),
                                                          *[z3.And(hit[i][j], label_cells_eq(c, post_pairs[j2][0], pre_pairs[j][0])) for j in range(N)]))
                                             for j2 in range(N)])))
            # every other label is still there with its target
            for j in range(N):
                ecl.append(z3.Implies(z3.And(g, z3.UGT(E[i], j), z3.Not(hit[i][j])),
                                      z3.Or(*[z3.And(z3.UGT(E1[i], j2), post_pairs[j2][1] == pre_pairs[j][1],
                                                     label_cells_eq(c, post_pairs[j2][0], pre_pairs[j][0])) for j2 in range(N)])))
                tj = post_pairs[j][1]
                kj = post_pairs[j][0]
                ocl.append(z3.Implies(z3.And(g, hit[i][j]), tj == v2))
                ocl.append(z3.Implies(z3.And(g, new[i], E[i] == j), z3.And(tj == v2, label_cells_eq(c, kj, aimg))))
        cl.append(('edges', z3.And(*ecl)))
        cl.append(('order:edges', z3.And(*ocl)))

        def allowed(key):
            k = key[0]
            if k == 'tag':
                return z3.Or(v1 == key[1], v2 == key[1])
            if k in ('cnt', 'items', 'ctr'):
                if key[1] < 2:
                    return True if k == 'ctr' else False
                return z3.Or(n1 == key[1], n2 == key[1])
            if k in ('elen', 'eval', 'ekey'):
                return v1 == key[1]
            return False
        fr, nd = c.frame(post, allowed)
        cl += fr
        cl += inv_post(c, post)
        c.refute(post, cl, call, props_of)
        env.cover('bind forms a group', lambda: vm.feasible(post, both1))
        env.cover('bind forms a group while another group is alive', lambda: vm.feasible(post, z3.And(both1, z3.Or(*[CNT[b] != 0 for b in range(2, NSLOT)]))))
        env.cover('bind joins (ungrouped source)', lambda: vm.feasible(post, j12))
        env.cover('bind joins (ungrouped target)', lambda: vm.feasible(post, j21))
        env.cover('bind of two grouped vertices', lambda: vm.feasible(post, z3.And(z3.UGE(b1, 2), z3.UGE(b2, 2))))
        env.cover('bind replaces an existing label', lambda: vm.feasible(post, z3.Or(*[z3.And(v1 == i, anyhit[i]) for i in range(cap)])))
        env.cover('bind of a vertex holding an unread datum', lambda: vm.feasible(post, z3.And(b1 == 1, c.at(P, v1, 8) == STORED)))
    env.sample({'op': 'bind(v1,v2,a)', 'N': N, 'cap': cap, 'paths': len(outs), 'outcomes': sorted({o.kind for o in outs})})
    env.account(w)


# ====================================================================== readers
def ob_readers(env, N, cap):
    """kid / kids / keys / len / is_empty on every Inv state: answers are functions of the abstract
    state, and the three stores are byte-identical afterwards (&self methods get iter_mut from emap)"""
    c = Ctx(env, N, cap)
    w, y, vm = c.w, c.y, c.vm
    T = c.T(); E = c.E()
    nobody = lambda key: False
    # ---- kid(v, a)
    v, vr = c.vid('v')
    st = c.pre.fork()
    a = SymLabel('arg')
    st.assume(a.wf())
    st, la = w.make_label(st, a)
    st.mem.lookup(la).name = 'arg.a'
    outp = w.scratch(st, 8, 'out')
    st.assume(vr)
    st.assume(c.at(T, v) != 0)
    c.pre = st
    hit = [[z3.And(z3.UGT(E[i], j), y.ekey[i][j].eq(a)) for j in range(N)] for i in range(cap)]
    call = {'op': 'kid', 'v': v, 'a': a}
    outs = vm.run(st, w.pfx + 'kid', [w.g, v, la, outp])
    for o in outs:
        if o.kind != 'ret':
            c.terminal_violation(o, call, ('C03', 'C07'), 'returns')
            continue
        post = o.st
        found = o.value if isinstance(o.value, z3.BoolRef) else (to_bv(o.value, 8) & 1) == 1
        anyhit = z3.Or(*[z3.And(v == i, hit[i][j]) for i in range(cap) for j in range(N)])
        cl = [('reader-result:found', found == anyhit)]
        if vm.feasible(post, found):
            tgt = to_bv(w.rd(post, outp, 8), 64)
            cl.append(('reader-result:target', z3.Implies(found, z3.And(*[
                z3.Implies(z3.And(v == i, hit[i][j]), tgt == y.etgt[i][j]) for i in range(cap) for j in range(N)]))))
        fr, nd = c.frame(post, nobody)
        cl += [('reader-pure:' + n, f) for n, f in fr]
        c.refute(post, cl, call, props_of)
        env.cover('kid finds the second of two labels', lambda: N < 2 or vm.feasible(post, z3.Or(*[z3.And(v == i, hit[i][1]) for i in range(cap)])))
        env.cover('kid finds nothing on a vertex with edges', lambda: vm.feasible(post, z3.And(z3.Not(found), c.at(E, v) != 0)))
    npaths = len(outs)
    # ---- kids(v)
    c.pre = st = c.pre.fork()
    lab_out = w.scratch(st, max(1, N) * w.sz_label, 'out.labels')
    tgt_out = w.scratch(st, max(1, N) * 8, 'out.targets')
    call = {'op': 'kids', 'v': v}
    outs = vm.run(st, w.pfx + 'kids', [w.g, v, lab_out, tgt_out])
    for o in outs:
        if o.kind != 'ret':
            c.terminal_violation(o, call, ('C03', 'C07'), 'returns')
            continue
        post = o.st
        n = to_bv(o.value, 64)
        cl = [('reader-result:count', n == c.at(E, v))]
        ent = []
        for j in range(N):
            if not vm.feasible(post, z3.UGT(n, j)):
                continue
            tj = to_bv(w.rd(post, tgt_out + 8 * j, 8), 64)
            lj = post.mem.read_cells(lab_out + j * w.sz_label, w.sz_label)
            for i in range(cap):
                ent.append(z3.Implies(z3.And(v == i, z3.UGT(n, j)),
                                      z3.And(tj == y.etgt[i][j], label_cells_eq(c, lj, w.ekey_cells(c.pre, i, j)))))
        cl.append(('reader-result:entries', z3.And(*ent) if ent else z3.BoolVal(True)))
        fr, nd = c.frame(post, nobody)
        cl += [('reader-pure:' + n_, f) for n_, f in fr]
        c.refute(post, cl, call, props_of)
    npaths += len(outs)
    # ---- keys / len / is_empty
    st = c.pre.fork()
    kout = w.scratch(st, 8 * cap, 'out.keys')
    c.pre = st
    count = U(0)
    for i in range(cap):
        count = count + z3.If(T[i] != 0, U(1), U(0))
    outs = vm.run(st, w.pfx + 'keys', [w.g, kout])
    for o in outs:
        call = {'op': 'keys'}
        if o.kind != 'ret':
            c.terminal_violation(o, call, ('C01', 'C07'), 'returns')
            continue
        post = o.st
        n = o.value
        if not isinstance(n, int):
            n = vm.concretize(post, n)
        ks = [w.rd(post, kout + 8 * k, 8) for k in range(n)]
        if not all(isinstance(k, int) for k in ks) or ks != sorted(set(ks)) or any(k >= cap for k in ks):
            cl = [('keys:ascending-distinct', z3.BoolVal(False))]
        else:
            cl = [('keys:exact', z3.And(*[(T[i] != 0) if i in ks else (T[i] == 0) for i in range(cap)]))]
        fr, nd = c.frame(post, nobody)
        cl += [('reader-pure:' + n_, f) for n_, f in fr]
        c.refute(post, cl, call, props_of)
    env.cover('keys() on a graph with an absent id between present ones', lambda: any(
        o.kind == 'ret' and cap >= 3 and vm.feasible(o.st, z3.And(T[0] != 0, T[1] == 0, T[2] != 0)) for o in outs))
    npaths += len(outs)
    for fn, f in (('len', lambda r: to_bv(r, 64) == count),
                  ('is_empty', lambda r: ((to_bv(r, 8) & 1) == 1 if not isinstance(r, z3.BoolRef) else r) == (count == 0))):
        outs = vm.run(st, w.pfx + fn, [w.g])
        for o in outs:
            call = {'op': fn}
            if o.kind != 'ret':
                c.terminal_violation(o, call, ('C01', 'C07'), 'returns')
                continue
            cl = [('keys:' + fn, f(o.value))]
            fr, nd = c.frame(o.st, nobody)
            cl += [('reader-pure:' + n_, f_) for n_, f_ in fr]
            c.refute(o.st, cl, call, props_of)
        npaths += len(outs)
    env.sample({'op': 'kid/kids/keys/len/is_empty', 'N': N, 'cap': cap, 'paths': npaths})
    env.account(w)


# ====================================================================== C06: the slot table at full scale
def ob_bind_slots(env, N, cap, v1=0, v2=1):
    """bind of two ungrouped vertices when the 14 group slots have ANY occupancy pattern.
    The pre-state is an over-approximation of Inv: the operands are ungrouped, every slot has an
    arbitrary member count 0..16 and arbitrary members, an empty slot has counter 0, at least one
    slot among 2..15 is empty.  (With cap <= 6 Inv itself admits at most three groups; dropping its
    conjuncts for the other slots only adds pre-states.)  The call must pick a previously empty
    slot >= 2, leave exactly [v1, v2] there, and touch no other slot."""
    c = Ctx(env, N, cap, assume_inv=False)
    w, y, vm = c.w, c.y, c.vm
    st = c.pre.fork()
    a = SymLabel('arg')
    st.assume(a.wf())
    st, la = w.make_label(st, a)
    st.mem.lookup(la).name = 'arg.a'
    T = c.T(); P = c.P(); E = c.E(); CNT = c.CNT(); CTR = c.CTR()
    st.assume(T[v1] == 1); st.assume(T[v2] == 1)
    for b in (0, 1):
        pass        # the reserved slots keep their sentinel (concrete in the symbolic state)
    for b in range(2, NSLOT):
        st.assume(z3.ULE(CNT[b], NSLOT))
        st.assume(z3.Implies(CNT[b] == 0, CTR[b] == 0))
    st.assume(z3.Or(*[CNT[b] == 0 for b in range(2, NSLOT)]))
    st.assume(z3.ULT(E[v1], N))      # room for the label
    if not vm.solver.check(st.pc, want_model=False)[0]:
        raise Inconclusive("vacuous pre-state")
    c.pre = st
    call = {'op': 'bind', 'v1': U(v1), 'v2': U(v2), 'a': a}
    outs = vm.run(st, w.pfx + 'bind', [w.g, v1, v2, la])
    chosen = set()
    for o in outs:
        if o.kind != 'ret':
            c.terminal_violation(o, call, ('C06',), 'slot-formed')
            continue
        post = o.st
        T1 = c.T(post); CNT1 = c.CNT(post); CTR1 = c.CTR(post)
        n1 = T1[v1]
        unread = z3.If(P[v1] == STORED, U(1), U(0)) + z3.If(P[v2] == STORED, U(1), U(0))
        it0 = z3.And(*[z3.Implies(n1 == b, z3.Or(z3.And(c.ITEM(post, b, 0) == v1, c.ITEM(post, b, 1) == v2),
                                                  z3.And(c.ITEM(post, b, 0) == v2, c.ITEM(post, b, 1) == v1))) for b in range(2, NSLOT)])
        cl = [('slot-formed:tag', z3.And(n1 == T1[v2], z3.UGE(n1, 2), z3.ULT(n1, NSLOT))),
              ('slot-formed:was-empty', c.at(CNT, n1) == 0),
              ('slot-formed:members', z3.And(c.at(CNT1, n1) == 2, it0)),
              ('slot-formed:counter', c.at(CTR1, n1) == unread)]

        def allowed(key):
            k = key[0]
            if k == 'tag':
                return key[1] in (v1, v2)
            if k in ('cnt', 'items', 'ctr'):
                if key[1] < 2:
                    return False
                return n1 == key[1]
            if k in ('elen', 'eval', 'ekey'):
                return key[1] == v1
            return False
        fr, nd = c.frame(post, allowed)
        cl += [('slot-formed:' + n_, f) for n_, f in fr]
        c.refute(post, cl, call, props_of)
        for b in range(2, NSLOT):
            if b not in chosen and vm.feasible(post, n1 == b):
                chosen.add(b)
    env.cover('every slot 2..15 is chosen on some path', len(chosen) >= NSLOT - 2)
    env.cover('a path with 13 other slots occupied', lambda: any(
        o.kind == 'ret' and vm.feasible(o.st, z3.And(*[CNT[b] != 0 for b in range(2, NSLOT - 1)])) for o in outs))
    env.sample({'op': 'bind(v1,v2) over all slot occupancies', 'N': N, 'cap': cap, 'paths': len(outs), 'slots chosen': sorted(chosen)})
    env.account(w)


# ====================================================================== clone (C10)
def ob_clone(env, N, cap):
    """clone() from every Inv state: the copy's abstract state equals the original's (tags, persistence,
    data bytes and representation-independent content, edges in order, member lists, counters, position),
    lives in allocations of its own, and the original is byte-identical afterwards"""
    c = Ctx(env, N, cap)
    w, y, vm = c.w, c.y, c.vm
    st = c.pre.fork()
    out = w.scratch(st, w.gsize, 'out.clone')
    c.pre = st
    call = {'op': 'clone'}
    pre_bases = {a.base for a in st.mem.pages.values()}
    outs = vm.run(st, w.pfx + 'clone', [w.g, out])
    T = c.T(); P = c.P(); E = c.E(); CNT = c.CNT(); CTR = c.CTR()
    for o in outs:
        if o.kind != 'ret':
            c.terminal_violation(o, call, ('C10', 'C07'), 'returns')
            continue
        post = o.st
        pr = w.scratch(post, 24 * 8, 'probe')
        post = w.call1(post, w.pfx + 'probe', out, pr).st
        PR = [w.rd(post, pr + 8 * i, 8) for i in range(24)]
        if not all(isinstance(x, int) for x in PR):
            raise Inconclusive("clone: symbolic arena addresses")
        cw = w.view(PR)
        cl = []
        # own allocations
        arenas_new = all(post.mem.lookup(a).base not in pre_bases for a in (cw.v0, cw.s0, cw.b0))
        cl.append(('clone-independent:arenas', z3.BoolVal(arenas_new)))
        eqs = []
        for i in range(cap):
            eqs.append(to_bv(cw.tag(post, i), 64) == T[i])
            here = T[i] != 0          # what an absent slot still holds is not observable: only its absence is copied
            eqs.append(z3.Implies(here, to_bv(cw.pers(post, i), 8) == P[i]))
            eqs.append(z3.Implies(here, to_bv(cw.elen(post, i), 64) == E[i]))
            for j in range(N):
                eqs.append(z3.Implies(z3.And(here, z3.UGT(E[i], j)), z3.And(
                    to_bv(cw.etgt(post, i, j), 64) == y.etgt[i][j],
                    label_cells_eq(c, cw.ekey_cells(post, i, j), w.ekey_cells(c.pre, i, j)))))
        cl.append(('clone-equal:vertices', z3.And(*eqs)))
        eqs = []
        for b in range(NSLOT):
            eqs.append(to_bv(cw.cnt(post, b), 64) == CNT[b])
            eqs.append(to_bv(cw.ctr(post, b), 64) == CTR[b])
            for k in range(NSLOT if b >= 2 else 1):
                it0 = c.ITEM(c.pre, b, k)
                eqs.append(z3.Implies(z3.UGT(CNT[b], k), to_bv(cw.item(post, b, k), 64) == it0))
        cl.append(('clone-equal:pos', to_bv(cw.pos(post), 64) == to_bv(w.pos(c.pre), 64)))
        cl.append(('clone-equal:groups', z3.And(*eqs)))
        # data: same bytes, buffers of its own
        deq = []
        own = True
        for i in range(cap):
            dec = decode_hex(c, post, cw.a_data(i), want_ptr=True)
            deq.append(z3.Implies(z3.And(T[i] != 0, P[i] != EMPTY), hex_equals([(cd, n, bs) for cd, n, bs, _ in dec], y.data[i])))
            for cd, n, bs, ptr in dec:
                if isinstance(ptr, int):
                    ptrs = [ptr]
                else:
                    s2 = post.fork(); s2.assume(cd)
                    if not vm.solver.check(s2.pc, want_model=False)[0]:
                        continue
                    ptrs = vm.values_of(s2, ptr, exact=True)
                for pv in ptrs:
                    a = post.mem.lookup(pv)
                    inside_clone = a is not None and a.base == post.mem.lookup(cw.v0).base
                    if a is not None and a.base in pre_bases and not inside_clone:
                        own = False
        cl.append(('clone-equal:data', z3.And(*deq)))
        cl.append(('clone-independent:data-buffers', z3.BoolVal(own)))
        fr, nd = c.frame(post, lambda key: False)
        cl += [('clone-pure:' + n_, f) for n_, f in fr]
        c.refute(post, cl, call, props_of)
        env.cover('clone of a graph with a heap datum', lambda: vm.feasible(post, z3.Or(*[y.data[i].sel != 0 for i in range(cap)])))
        env.cover('clone of a graph with a live group', lambda: vm.feasible(post, z3.Or(*[z3.UGE(T[i], 2) for i in range(cap)])))
    env.sample({'op': 'clone()', 'N': N, 'cap': cap, 'paths': len(outs), 'outcomes': sorted({o.kind for o in outs})})
    env.account(w)


# ====================================================================== memory safety and limits (C07)
def _classify(c, outs, call, in_limits, what):
    """no path may end in a memory error; a path that returns must be within the limits"""
    vm = c.vm
    for o in outs:
        if o.kind == 'memerr':
            if vm.solver.check(o.st.pc, want_model=False)[0]:
                c.terminal_violation(o, call, ('C07',), 'memory-error')
        elif o.kind == 'ret':
            ok, model = vm.solver.check(o.st.pc, z3.Not(in_limits))
            if ok:
                c.report(model, ['limit-not-enforced:' + what], call, lambda n: ('C07',), kind='ret',
                         detail='the call returns although it exceeds a limit (%s)' % what)
        elif o.kind == 'abort':
            c.terminal_violation(o, call, ('C07',), 'memory-error')


def ob_mem(env, N, cap):
    """every operation with UNCONSTRAINED arguments from every Inv state: each path ends in a return or
    a panic, never in an out-of-bounds / freed / uninitialised access; an id at or above the capacity,
    an (N+1)-th label and a 17th member end in a panic"""
    c = Ctx(env, N, cap)
    w, y, vm = c.w, c.y, c.vm
    T = c.T(); E = c.E(); CNT = c.CNT()
    base = c.pre
    v = z3.BitVec('v', 64)
    npaths = 0
    kinds = set()

    def go(st, fn, args, call, in_limits, what):
        nonlocal npaths
        outs = vm.run(st, w.pfx + fn, args)
        npaths += len(outs)
        kinds.update(o.kind for o in outs)
        _classify(c, outs, call, in_limits, what)
        return outs
    # ---- one id argument, any 64-bit value
    st = base.fork()
    outs = go(st, 'add', [w.g, v], {'op': 'add', 'v': v}, z3.ULT(v, cap), 'id >= capacity')
    env.cover('add with an id at or above the capacity panics', any(o.kind == 'panic' for o in outs))
    st = base.fork()
    d = SymHex('arg'); st.assume(d.wf()); st, da = w.make_hex(st, d)
    go(st, 'put', [w.g, v, da], {'op': 'put', 'v': v, 'd': d}, z3.ULT(v, cap), 'id >= capacity')
    st = base.fork()
    out = w.scratch(st, w.sz_hex, 'out')
    go(st, 'data', [w.g, v, out], {'op': 'data', 'v': v}, z3.ULT(v, cap), 'id >= capacity')
    st = base.fork()
    a = SymLabel('arg'); st.assume(a.wf()); st, la = w.make_label(st, a)
    outp = w.scratch(st, 8, 'out')
    go(st, 'kid', [w.g, v, la, outp], {'op': 'kid', 'v': v, 'a': a}, z3.ULT(v, cap), 'id >= capacity')
    lab_out = w.scratch(st, max(1, N) * w.sz_label, 'out.labels')
    tgt_out = w.scratch(st, max(1, N) * 8, 'out.targets')
    go(st, 'kids', [w.g, v, lab_out, tgt_out], {'op': 'kids', 'v': v}, z3.ULT(v, cap), 'id >= capacity')
    # ---- bind: each endpoint in turn unconstrained, the other fixed (present or not, equal or not)
    hit0 = z3.Or(*[z3.And(z3.UGT(E[0], j), y.ekey[0][j].eq(a)) for j in range(N)])
    lim = z3.And(z3.ULT(v, cap))
    go(st, 'bind', [w.g, v, 1, la], {'op': 'bind', 'v1': v, 'v2': 1, 'a': a}, lim, 'id >= capacity')
    go(st, 'bind', [w.g, 0, v, la], {'op': 'bind', 'v1': 0, 'v2': v, 'a': a},
       z3.And(z3.ULT(v, cap), z3.Or(hit0, z3.ULT(E[0], N), T[0] == 0)), 'id >= capacity or more than N labels')
    # ---- the (N+1)-th label
    s2 = st.fork()
    s2.assume(T[0] != 0); s2.assume(T[1] != 0); s2.assume(E[0] == N); s2.assume(z3.Not(hit0))
    outs = go(s2, 'bind', [w.g, 0, 1, la], {'op': 'bind', 'v1': 0, 'v2': 1, 'a': a}, z3.BoolVal(False), 'more than N labels')
    env.cover('an (N+1)-th label panics', any(o.kind == 'panic' for o in outs))
    env.sample({'op': 'all operations, unconstrained ids', 'N': N, 'cap': cap, 'paths': npaths, 'outcomes': sorted(kinds)})
    env.account(w)


def ob_mem_members(env, N, cap):
    """a 17th member: a slot that already lists 16 members (over-approximated pre-state: the members
    themselves are arbitrary) and a bind that joins it must panic before writing past the list"""
    c = Ctx(env, N, cap, assume_inv=False)
    w, y, vm = c.w, c.y, c.vm
    T = c.T(); E = c.E(); CNT = c.CNT()
    st = c.pre.fork()
    a = SymLabel('arg'); st.assume(a.wf()); st, la = w.make_label(st, a)
    st.assume(z3.UGE(T[0], 2)); st.assume(T[1] == 1)
    st.assume(c.at(CNT, T[0]) == NSLOT)
    st.assume(z3.ULT(E[0], N)); st.assume(z3.ULT(E[1], N))
    for b in range(2, NSLOT):
        st.assume(z3.ULE(CNT[b], NSLOT))
    n = 0
    for (v1, v2) in ((0, 1), (1, 0)):
        call = {'op': 'bind', 'v1': v1, 'v2': v2, 'a': a}
        outs = vm.run(st, w.pfx + 'bind', [w.g, v1, v2, la])
        n += len(outs)
        _classify(c, outs, call, z3.BoolVal(False), 'more than 16 members')
        env.cover('a 17th member panics (%d,%d)' % (v1, v2), any(o.kind == 'panic' for o in outs))
    env.sample({'op': 'bind joining a full group', 'N': N, 'cap': cap, 'paths': n})
    env.account(w)


def ob_mem_lifecycle(env, N, cap):
    """empty(cap), clone, a few calls, drop of both -- concrete, for the allocator discipline:
    every dealloc matches its alloc, nothing is freed twice or used after free"""
    from .vm import VM
    from . import harness
    mod = harness.module(env.ll)
    vm = VM(mod, dict(merge_calls=()))
    pfx = '@s%d_' % N
    st = vm.new_state()
    g = st.mem.alloc(4096, 16, 'heap', name='G').base
    g2 = st.mem.alloc(4096, 16, 'heap', name='G2').base
    lab = st.mem.alloc(64, 16, 'heap', name='L').base
    hx = st.mem.alloc(64, 16, 'heap', name='H').base
    src = st.mem.alloc(16, 16, 'heap', name='S', fill=7).base

    def one(st, fn, *args):
        outs = vm.run(st, fn, list(args))
        if len(outs) != 1 or outs[0].kind not in ('ret',):
            raise Inconclusive("%s: %r" % (fn, outs))
        return outs[0].st
    st = one(st, pfx + 'empty', g, cap)
    live0 = {a.base for a in st.mem.pages.values() if a.kind == 'heap' and a.live}
    if cap >= 2:
        st = one(st, pfx + 'add', g, 0)
        st = one(st, pfx + 'add', g, 1)
        st = one(st, '@label_alpha', lab, 0)
        st = one(st, pfx + 'bind', g, 0, 1, lab)
        st = one(st, '@hex_vector', hx, src, 12)
        st = one(st, pfx + 'put', g, 1, hx)
    st = one(st, pfx + 'clone', g, g2)
    st = one(st, pfx + 'drop', g2)
    st = one(st, pfx + 'drop', g)
    if cap >= 2:
        st = one(st, '@hex_drop', hx)
    leaked = [a for a in {a.base: a for a in st.mem.pages.values()}.values() if a.kind == 'heap' and a.live and a.name and a.name.startswith('heap#')]
    env.res['paths'] += 1
    env.res['queries'] += vm.solver.queries
    env.res['steps'] += st.steps
    env.res['funcs'] = sorted(vm.stats['funcs'])
    env.cover('lifecycle ran to the end', True)
    env.sample({'op': 'empty/add/bind/put/clone/drop lifecycle', 'N': N, 'cap': cap, 'ir_steps': st.steps,
                'heap allocations still live at the end (leaks are not part of the property)': len(leaked)})
