"""One-step obligations for the graph operations (engine S).

Every obligation starts from the fully symbolic pre-state of `graph.World.symbolic`
constrained by Inv, executes ONE real operation with symbolic arguments on the IR,
and asks the solver whether a clause of the step relation can fail.  Clauses carry
the ids of the properties they serve; a check reports only its own clauses."""
import z3

from . import graph as G
from .graph import NSLOT, U, STORED, TAKEN, EMPTY, inv, SymLabel, SymHex
from .vm import to_bv, cells_to_val, cell_eq, cell_term, Inconclusive, Terminal


def bits_for(cap):
    return max(1, (cap - 1).bit_length())


class Ctx:
    """symbolic pre-state of one configuration, with Inv assumed"""

    def __init__(s, env, N, cap, assume_inv=True, heap_lens=(9, 10)):
        s.env = env
        s.N, s.cap = N, cap
        s.w = env.world(N, cap, heap_lens=tuple(heap_lens))
        s.vm = s.w.vm
        st, y = s.w.symbolic()
        s.y = y
        s.pre = st
        s.inv_pre = inv(s.w, st)
        if assume_inv:
            for name, c in s.inv_pre:
                st.assume(c)
        # I6: labels of one vertex are pairwise distinct
        for i in range(cap):
            for j in range(N):
                for k in range(j + 1, N):
                    st.assume(z3.Implies(z3.UGT(y.elen[i], k), z3.Not(y.ekey[i][j].eq(y.ekey[i][k]))))
        if not s.vm.solver.check(st.pc, want_model=False)[0]:
            raise Inconclusive("Inv is unsatisfiable for N=%d cap=%d (vacuous)" % (N, cap))
        # ghost state of C01: linked is an equivalence on ids, bound a set
        s.linked = [[z3.Bool('lnk_%d_%d' % (min(i, j), max(i, j))) if i != j else z3.BoolVal(True) for j in range(cap)] for i in range(cap)]
        s.bound = [z3.Bool('bound_%d' % i) for i in range(cap)]
        gh = []
        for i in range(cap):
            for j in range(cap):
                for k in range(cap):
                    if len({i, j, k}) == 3:
                        gh.append(z3.Implies(z3.And(s.linked[i][j], s.linked[j][k]), s.linked[i][k]))
        for i in range(cap):
            gh.append(z3.Implies(z3.UGE(y.tag[i], 2), s.bound[i]))
            for j in range(i + 1, cap):
                gh.append(z3.Implies(z3.And(y.tag[i] == y.tag[j], z3.UGE(y.tag[i], 2)), s.linked[i][j]))
        s.ghost = gh
        env.account(s.w)

    # ------------------------------------------------------------ variables
    def vid(s, name, in_range=True):
        """a vertex id argument: below the capacity (narrow variable) or any 64-bit value"""
        if in_range:
            b = bits_for(s.cap)
            v = z3.ZeroExt(64 - b, z3.BitVec(name, b))
            return v, z3.ULT(v, s.cap)
        v = z3.BitVec(name, 64)
        return v, z3.BoolVal(True)

    def T(s, st=None):
        st = st or s.pre
        return [to_bv(s.w.tag(st, i), 64) for i in range(s.cap)]

    def P(s, st=None):
        st = st or s.pre
        return [to_bv(s.w.pers(st, i), 8) for i in range(s.cap)]

    def E(s, st=None):
        st = st or s.pre
        return [to_bv(s.w.elen(st, i), 64) for i in range(s.cap)]

    def CNT(s, st=None):
        st = st or s.pre
        return [to_bv(s.w.cnt(st, b), 64) for b in range(NSLOT)]

    def CTR(s, st=None):
        st = st or s.pre
        return [to_bv(s.w.ctr(st, b), 64) for b in range(NSLOT)]

    def ITEM(s, st, b, k):
        return to_bv(s.w.item(st, b, k), 64)

    def at(s, terms, idx, bits=64):
        return s.w.sel(terms, idx, bits)

    # ------------------------------------------------------------ frame
    def regions(s):
        """named cell ranges of the three arenas, the header and the data buffers"""
        w = s.w
        if hasattr(s, '_regions'):
            return s._regions
        R = {}
        for i in range(s.cap):
            base = w.v0 + i * w.v_stride
            R[('tag', i)] = (w.a_tag(i), 8)
            R[('pers', i)] = (w.a_pers(i), 1)
            R[('data', i)] = (w.a_data(i), w.sz_hex)
            R[('edges', i)] = (base + w.o_edges, w.sz_edges)
        for b in range(NSLOT):
            R[('cnt', b)] = (w.a_cnt(b), 8)
            R[('items', b)] = (w.a_item(b, 0), NSLOT * w.k_istride)
            R[('ctr', b)] = (w.a_ctr(b), 8)
        R[('pos', 0)] = (w.f_nextv, 8)
        s._regions = R
        s._rindex = {}
        for key, (a, n) in R.items():
            for x in range(a, a + n):
                s._rindex[x] = key
        return R

    def region_of(s, addr):
        s.regions()
        return s._rindex.get(addr, ('other', 0))

    def frame(s, post, allowed):
        """formula: every cell that existed before the call and is not in an allowed region is
        unchanged, and every allocation that was live still is.  `allowed(key)` returns True
        (may change), False/None (must not), or a z3 Bool guard under which it may change.
        Returns (formula, number of cells that differ syntactically)."""
        pre = s.pre
        conj = []
        ndiff = 0
        seen = set()
        for pg, a0 in pre.mem.pages.items():
            if a0.base in seen:
                continue
            seen.add(a0.base)
            if a0.kind not in ('heap', 'global'):
                continue
            if a0.name and a0.name.startswith(('scratch', 'lbl.', 'hex.', 'hexsrc', 'lay', 'probe', 'tmpG', 'out', 'arg.')):
                continue
            a1 = post.mem.pages.get(pg)
            if a1 is a0:
                continue
            if a1 is None:
                continue
            if a0.live and not a1.live:
                g = allowed(('free', a0.base))
                if g is True:
                    continue
                conj.append(z3.BoolVal(False) if (g is False or g is None) else g)
                continue
            c0 = a0.cells
            c1 = a1.cells
            for off in range(a0.size):
                x = c0[off]
                y = c1[off]
                if x is y:
                    continue
                e = cell_eq(x, y)
                if e:
                    continue
                ndiff += 1
                key = s.region_of(a0.base + off)
                g = allowed(key)
                if g is True:
                    continue
                if x is None or y is None:
                    eq = z3.BoolVal(False)
                else:
                    eq = cell_term(x) == cell_term(y)
                conj.append(eq if (g is False or g is None) else z3.Or(g, eq))
        return (z3.And(*conj) if conj else z3.BoolVal(True)), ndiff

    # ------------------------------------------------------------ verdicts
    def refute(s, st, clauses, call, props_of, extra_calls=()):
        """clauses: list of (name, formula).  Asks for a model of pc && !(all clauses); records a
        violation per failing clause (at most one model per call of refute)."""
        vm = s.vm
        # clauses that are literally assumptions (an untouched Inv conjunct) or simplify to true need no solver
        assumed = {c.get_id() for c in st.pc}
        pre_inv = {f.get_id() for _, f in s.inv_pre}
        todo = []
        for n, c in clauses:
            if c.get_id() in pre_inv or c.get_id() in assumed:
                continue
            c2 = z3.simplify(c)
            if z3.is_true(c2) or c2.get_id() in assumed:
                continue
            todo.append((n, c))
        clauses = todo
        good = True
        while clauses:
            conj = z3.And(*[c for _, c in clauses])
            ok, model = vm.solver.oneshot(st.pc, z3.Not(conj))
            if not ok:
                break
            good = False
            failing = []
            for name, c in clauses:
                try:
                    if not z3.is_true(model.eval(c, model_completion=True)):
                        failing.append(name)
                except z3.Z3Exception:
                    failing.append(name)
            if not failing:
                failing = [clauses[0][0]]
            s.report(model, failing, call, props_of, extra_calls)
            # look for violations of the remaining clause families too
            fams = {f.split(':')[0] for f in failing}
            clauses = [(n, c) for n, c in clauses if n.split(':')[0] not in fams]
        return good

    def concrete_call(s, call, model):
        ev = lambda t: model.eval(t, model_completion=True).as_long() if z3.is_expr(t) else t
        out = {}
        for k, v in call.items():
            if isinstance(v, SymLabel):
                out[k] = v.concrete(model)
            elif isinstance(v, SymHex):
                out[k] = v.concrete(model)
            elif z3.is_expr(v):
                out[k] = ev(v)
            else:
                out[k] = v
        return out

    def report(s, model, failing, call, props_of, extra_calls=(), kind='clause', detail=None):
        props = sorted({p for name in failing for p in props_of(name)})
        cc = s.concrete_call(call, model)
        job = {'n': s.N, 'cap': s.cap, 'pre': s.y.concrete(model), 'calls': [cc] + [s.concrete_call(c, model) for c in extra_calls]}
        s.env.violation(kind=kind, clauses=failing, props=props, call=cc, job=job, detail=detail)

    def terminal_violation(s, o, call, props, what):
        """a path that ended in a panic / memory error although it must not"""
        model = s.vm.get_model(o.st)
        if model is None:
            return
        cc = s.concrete_call(call, model)
        job = {'n': s.N, 'cap': s.cap, 'pre': s.y.concrete(model), 'calls': [cc]}
        s.env.violation(kind=o.kind, clauses=[what], props=sorted(props), call=cc, job=job, detail=o.detail)


# clause name -> properties
PROPS = {
    'returns': ('C02', 'C07'),
    'no-removal': ('C01',),
    'ghost': ('C01',),
    'removal-safe': ('C01',),
    'exact': ('C02',),
    'groups': ('C02',),
    'inv': ('C02', 'C06'),
    'slot-released': ('C06',),
    'slot-formed': ('C06',),
    'add-present-unchanged': ('C04',),
    'add-absent-blank': ('C04', 'C03'),
    'add-frame': ('C04',),
    'frame': ('C03',),
    'frame-groups': ('C02', 'C01'),
    'result': ('C03',),
    'persistence': ('C03', 'C02'),
    'edges': ('C03',),
    'fresh': ('C05',),
    'pos': ('C05',),
    'reader-result': ('C03',),
    'keys': ('C01',),
    'reader-pure': ('C01', 'C03'),
}


def props_of(name):
    return PROPS[name.split(':')[0]]


def inv_post(c, post):
    return [('inv:' + n, f) for n, f in inv(c.w, post)]


# ====================================================================== add
def ob_add(env, N, cap):
    c = Ctx(env, N, cap)
    w, y, vm = c.w, c.y, c.vm
    v, vr = c.vid('v')
    st = c.pre.fork()
    st.assume(vr)
    call = {'op': 'add', 'v': v}
    outs = vm.run(st, w.pfx + 'add', [w.g, v])
    T = c.T(); P = c.P(); E = c.E()
    for o in outs:
        if o.kind != 'ret':
            c.terminal_violation(o, call, PROPS['returns'], 'returns')
            continue
        post = o.st
        T1 = c.T(post); P1 = c.P(post); E1 = c.E(post)
        fresh = [z3.And(v == i, T[i] == 0) for i in range(cap)]
        cl = []
        cl.append(('no-removal', z3.And(*[z3.Implies(T[i] != 0, T1[i] != 0) for i in range(cap)])))
        cl.append(('add-absent-blank', z3.And(*[z3.Implies(fresh[i], z3.And(T1[i] == 1, E1[i] == 0, P1[i] == EMPTY)) for i in range(cap)])))
        # everything else is untouched: a vertex slot may change only if it is the fresh one
        def allowed(key):
            if key[0] in ('tag', 'pers', 'data', 'edges'):
                return fresh[key[1]]
            if key[0] == 'free':
                return z3.Or(*fresh)       # the stale heap datum of the re-used slot may be dropped
            return False
        fr, nd = c.frame(post, allowed)
        cl.append(('add-present-unchanged', z3.And(*[z3.Implies(z3.Not(fresh[i]), z3.And(T1[i] == T[i], P1[i] == P[i], E1[i] == E[i])) for i in range(cap)])))
        cl.append(('add-frame', fr))
        cl += inv_post(c, post)
        c.refute(post, cl, call, props_of)
        env.cover('add on a present grouped vertex', vm.feasible(post, z3.And(*[z3.Implies(v == i, z3.UGE(T[i], 2)) for i in range(cap)])))
        env.cover('add on a dirty absent slot', vm.feasible(post, z3.Or(*[z3.And(fresh[i], E[i] != 0, P[i] != 0) for i in range(cap)])))
    env.sample({'op': 'add(v)', 'N': N, 'cap': cap, 'paths': len(outs), 'outcomes': sorted({o.kind for o in outs})})
    env.account(w)


# ====================================================================== next_id
def ob_next_id(env, N, cap):
    c = Ctx(env, N, cap)
    w, y, vm = c.w, c.y, c.vm
    st = c.pre.fork()
    T = c.T()
    pos = to_bv(w.pos(st), 64)
    pre_ok = z3.Or(*[z3.And(T[i] == 0, z3.ULE(pos, i)) for i in range(cap)])
    call = {'op': 'next_id'}
    # with the precondition
    s1 = st.fork()
    s1.assume(pre_ok)
    outs = vm.run(s1, w.pfx + 'next_id', [w.g])
    for o in outs:
        if o.kind != 'ret':
            c.terminal_violation(o, call, ('C05',), 'fresh')
            continue
        post = o.st
        r = to_bv(o.value, 64)
        pos1 = to_bv(w.pos(post), 64)
        cl = [('fresh', z3.And(z3.ULT(r, cap), c.at(T, r) == 0, z3.UGE(r, pos))),
              ('pos', z3.And(z3.UGT(pos1, r), z3.UGE(pos1, pos), z3.ULE(pos1, cap)))]
        fr, nd = c.frame(post, lambda key: key[0] == 'pos')
        cl.append(('frame', fr))
        cl.append(('frame-groups', fr))
        c.refute(post, cl, call, props_of)
        env.cover('next_id skips a present id', vm.feasible(post, z3.UGT(r, pos)))
    # without it the only outcome is a panic (no id invented)
    s2 = st.fork()
    s2.assume(z3.Not(pre_ok))
    outs2 = vm.run(s2, w.pfx + 'next_id', [w.g])
    for o in outs2:
        if o.kind == 'ret':
            post = o.st
            r = to_bv(o.value, 64)
            c.refute(post, [('fresh', z3.And(z3.ULT(r, cap), c.at(T, r) == 0, z3.UGE(r, pos)))], call, props_of)
        elif o.kind == 'memerr':
            c.terminal_violation(o, call, ('C07',), 'returns')
    env.sample({'op': 'next_id()', 'N': N, 'cap': cap, 'paths': len(outs) + len(outs2),
                'outcomes': sorted({o.kind for o in outs + outs2})})
    env.account(w)
