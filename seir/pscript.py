"""C14: Script::from_str(text).deploy_to(g) executed on the build-std IR -- including the `regex` crate
(regex-syntax parser, regex-automata compilers and engines, aho-corasick, memchr), which compiles the four
patterns of src/script.rs at run time inside the executor and matches them against the text.

A task fixes a *program* (ADD/BIND/PUT over literal ids and $variables, generated so that the documented
preconditions and limits hold) and one *rendering* of it (whitespace, comments, nu-prefixes, hex case and
separators, trailing semicolon, chosen by a seeded generator).  Inside the rendering these bytes are solver
variables: every character of every label (any printable ASCII but the five structural characters; a
symbolic two-byte character for a one-character label; symbolic decimal digits after alpha), every hex
digit of every datum (within its digit range), and up to two whitespace characters (any of space, tab,
newline, carriage return).  deploy_to() runs on the text; the same pre-state then receives the
corresponding add/bind/put/next_id calls directly, with labels and data built from the SAME variables;
the two abstract post-states must be equal for all values, and the count equal to the number of commands.

Second obligation (single fault): one ASCII byte of a concrete rendering is replaced by a solver variable
ranging over all other ASCII bytes; the real parser forks on it.  No path may panic or report a memory
error unless its witness text is well-formed and leaves the limits; a path whose witness is malformed
(by the reference grammar below) must return Err, and its post-state must equal that of the commands
before the faulty one."""
import random
import re

import z3

from . import graph as G
from .graph import NSLOT, U, STORED, TAKEN, EMPTY, SymLabel
from .pgraph import decode_hex
from .pslice import decode_label
from .vm import to_bv, cells_to_val, Inconclusive, Terminal

WS = (0x20, 0x09, 0x0A, 0x0D)
STRUCT = (0x28, 0x29, 0x2C, 0x3B, 0x23)        # ( ) , ; #


# ====================================================================== programs

def gen_program(rnd, cap, N, ncmd):
    """a program within the limits: [(op, args...)]; refs are ('lit', id) or ('var', name)"""
    present, edges, vars_, pos = set(), {}, {}, 0
    prog = []
    names = ['x', 'ν1', 'v2', 'αβ', 'k9']

    def fresh_id():
        for i in range(pos, cap):
            if i not in present:
                return i
        return None

    def ref_of(v):
        opts = [('lit', v)]
        opts += [('var', n) for n, i in vars_.items() if i == v]
        return rnd.choice(opts)
    tries = 0
    while len(prog) < ncmd and tries < 200:
        tries += 1
        kind = rnd.choice(['ADD', 'ADD', 'BIND', 'BIND', 'PUT'])
        if kind == 'ADD':
            if rnd.random() < 0.5 and len(vars_) < len(names):
                i = fresh_id()
                if i is None:
                    continue
                nme = names[len(vars_)]
                vars_[nme] = i
                pos = i + 1
                present.add(i); edges.setdefault(i, 0)
                prog.append(('ADD', ('var', nme)))
            else:
                i = rnd.randrange(cap)
                if i not in present:
                    present.add(i); edges[i] = 0
                prog.append(('ADD', ('lit', i)))
        elif kind == 'BIND':
            c = [v for v in present if edges.get(v, 0) < N]
            if len(present) < 2 or not c:
                continue
            v1 = rnd.choice(sorted(c))
            v2 = rnd.choice(sorted(present - {v1}))
            edges[v1] += 1
            lab = rnd.choice([('str', rnd.randint(2, 8)), ('str', 3), ('str', 1), ('alpha', rnd.randint(1, 3)), ('greek2',)])
            prog.append(('BIND', ref_of(v1), ref_of(v2), lab))
        else:
            if not present:
                continue
            v = rnd.choice(sorted(present))
            prog.append(('PUT', ref_of(v), rnd.choice([1, 2, 3, 8, 9])))
    return prog, dict(vars_)


# ====================================================================== rendering

class Text:
    def __init__(s):
        s.cells = []
        s.cons = []
        s.nws = 0
        s.skel = []           # human-readable skeleton
        s.dom = {}
        s.tags = []           # what each byte is (positions for the single-fault obligation are drawn per category)

    def lit(s, b, tag='other'):
        if isinstance(b, str):
            b = b.encode('utf-8')
        s.cells += list(b)
        s.tags += [tag] * len(b)
        s.skel.append(b.decode('utf-8'))

    def sym(s, name, allowed_pred, show='?', tag='other'):
        v = z3.BitVec(name, 8)
        s.cells.append((v, 0))
        s.tags.append(tag)
        s.cons.append(allowed_pred(v))
        s.skel.append(show)
        # the byte's domain, by evaluating the constraint on all 256 values (used by the executor for table lookups)
        s.dom[name] = [x for x in range(256) if z3.is_true(z3.simplify(allowed_pred(z3.BitVecVal(x, 8))))]
        return v


def render(prog, rnd, max_symws=2, nu='ν', pfx=''):
    """returns (Text, api): api = [(op, ...)] with labels as SymLabel-like constant/term triples and data as byte terms"""
    t = Text()
    api = []
    uid = [0]

    def nm(p):
        uid[0] += 1
        return '%s%s%d' % (pfx, p, uid[0])

    def ws(allow_empty=True, spaces_only=False):
        r = rnd.random()
        if r < 0.35 and allow_empty:
            return
        if spaces_only:
            t.lit(' ' * rnd.randint(1, 2), 'ws')
            return
        if r < 0.6 and t.nws < max_symws:
            t.nws += 1
            t.sym(nm('ws'), lambda v: z3.Or(*[v == x for x in WS]), '␣', 'ws')
            return
        t.lit(rnd.choice([' ', '  ', '\n', '\t', ' \n ', '\r\n']), 'ws')

    def comment():
        if rnd.random() < 0.3:
            t.lit('#', 'hash')
            # comment text is concrete: a symbolic byte after '#' drives regex-automata's lazy DFA with a symbolic state
            # (every later table lookup is then indexed by a term over several bytes) -- outside the claim
            t.lit(''.join(rnd.choice('abc #;()$,-\t') for _ in range(rnd.randint(0, 4))), 'cmt')
            t.lit(rnd.choice([' note', '', ' ADD(9);']), 'cmt')
            t.lit('\n', 'nl')

    def ref(r):
        if r[0] == 'lit':
            if rnd.random() < 0.5:
                t.lit(nu, 'nu')
            t.lit(str(r[1]), 'id')
        else:
            t.lit('$', 'dollar')
            t.lit(r[1], 'varname')

    for cmd in prog:
        ws()
        comment()
        t.lit(cmd[0], 'name')
        ws(spaces_only=True)
        t.lit('(', 'open')
        if cmd[0] == 'ADD':
            ws(); ref(cmd[1]); ws()
            api.append(('ADD', cmd[1]))
        elif cmd[0] == 'BIND':
            ws(); ref(cmd[1]); ws(); t.lit(',', 'comma'); ws(); ref(cmd[2]); ws(); t.lit(',', 'comma'); ws()
            lab = cmd[3]
            if lab[0] == 'str':
                # each character: any upper-case letter, or any other printable ASCII character but the structural ones (the
                # two ranges are different byte classes of the command regex; within one range the automaton's state stays concrete)
                chars = []
                for _ in range(lab[1]):
                    if rnd.random() < 0.2:
                        chars.append(t.sym(nm('lc'), lambda v: z3.And(z3.UGE(v, 0x41), z3.ULE(v, 0x5A)), 'C', 'lab'))
                    else:
                        chars.append(t.sym(nm('lc'), lambda v: z3.And(z3.UGE(v, 0x21), z3.ULE(v, 0x7E), z3.Or(z3.ULT(v, 0x41), z3.UGT(v, 0x5A)), *[v != x for x in STRUCT]), 'c', 'lab'))
                api.append(('BIND', cmd[1], cmd[2], ('str', chars)))
            elif lab[0] == 'alpha':
                t.lit('α', 'alpha')
                ds = [t.sym(nm('ld'), lambda v: z3.And(z3.UGE(v, 0x30), z3.ULE(v, 0x39)), '9', 'labdigit') for _ in range(lab[1])]
                api.append(('BIND', cmd[1], cmd[2], ('alpha', ds)))
            else:
                b0 = t.sym(nm('g0'), lambda v: z3.And(z3.UGE(v, 0xC2), z3.ULE(v, 0xDF)), 'G')
                b1 = t.sym(nm('g1'), lambda v: z3.And(z3.UGE(v, 0x80), z3.ULE(v, 0xBF)), 'g')
                cp = ((z3.ZeroExt(24, b0) & 0x1F) << 6) | (z3.ZeroExt(24, b1) & 0x3F)
                t.cons.append(z3.And(cp != 0x3B1, cp != 0x85, cp != 0xA0))      # not alpha; not white space (it would be trimmed)
                api.append(('BIND', cmd[1], cmd[2], ('greek', cp)))
            ws()
        else:
            ws(); ref(cmd[1]); ws(); t.lit(',', 'comma'); ws()
            n = cmd[2]
            sep = rnd.choice(['-', '', ' ', '-'])
            bs = []
            for k in range(n):
                nib = []
                for h in range(2):
                    rng = rnd.choice(['d', 'l', 'u'])
                    lo, hi, off = {'d': (0x30, 0x39, 0x30), 'l': (0x61, 0x66, 0x57), 'u': (0x41, 0x46, 0x37)}[rng]
                    v = t.sym(nm('hx'), lambda v, lo=lo, hi=hi: z3.And(z3.UGE(v, lo), z3.ULE(v, hi)), {'d': '9', 'l': 'f', 'u': 'F'}[rng], ('hexhi', 'hexlo')[h])
                    nib.append(v - off)
                bs.append((nib[0] << 4) | nib[1])
                if k + 1 < n:
                    t.lit(sep, 'hexsep')
            api.append(('PUT', cmd[1], bs))
            ws()
        t.lit(')', 'close')
        ws()
        t.lit(';', 'semi')
    if rnd.random() < 0.3:
        # the last semicolon is optional
        while t.cells and t.cells[-1] == 0x3B:
            t.cells.pop()
            t.tags.pop()
            t.skel.pop()
            break
    ws()
    return t, api


# ====================================================================== reference grammar (plain Python)

class Malformed(Exception):
    pass


def _trim(s):
    # Rust's str::trim: Unicode White_Space
    wsp = '\t\n\x0b\x0c\r \x85\xa0                　'
    return s.strip(wsp)


def ref_parse(text):
    """[(index, ('ADD', ref) | ('BIND', ref, ref, labeltext) | ('PUT', ref, bytes))] up to the first malformed
    command; returns (commands, malformed: None | reason)"""
    clean = re.sub(r'#[^\n]*\n', '', text)
    out = []
    for piece in clean.split(';'):
        cmd = _trim(piece)
        if not cmd:
            continue
        m = re.match(r'^([A-Z]+) *\(([^)]*)\)$', cmd, re.S)
        if not m:
            return out, "cannot parse %r" % cmd
        args = [a for a in (_trim(x) for x in m.group(2).split(',')) if a]
        name = m.group(1)
        try:
            if name == 'ADD':
                if len(args) < 1:
                    raise Malformed('V is expected')
                out.append(('ADD', _ref(args[0])))
            elif name == 'BIND':
                if len(args) < 3:
                    raise Malformed('argument expected')
                r1 = _ref(args[0])
                out.append(('BIND', r1, _ref(args[1]), _label(args[2])))
            elif name == 'PUT':
                if len(args) < 2:
                    raise Malformed('Data is expected')
                r1 = _ref(args[0])
                out.append(('PUT', r1, _data(args[1])))
            else:
                raise Malformed('Unknown command')
        except Malformed as e:
            return out, str(e)
    return out, None


def _ref(s):
    if s[0] == '$':
        return ('var', s[1:])
    t = s[1:] if s[0] == 'ν' else s
    if not re.match(r'^\+?[0-9]+$', t) or int(t) >= 1 << 64:
        raise Malformed('id %r' % s)
    return ('lit', int(t))


def _label(s):
    if s[0] == 'α':
        t = s[1:]
        if not re.match(r'^\+?[0-9]+$', t) or int(t) >= 1 << 64:
            raise Malformed('label %r' % s)
        return {'a': int(t)}
    if len(s) == 1:
        return {'g': ord(s)}
    if len(s) > 8:
        raise Malformed('label %r' % s)
    return {'s': [ord(c) for c in s] + [0x20] * (8 - len(s))}


def _data(s):
    d = re.sub(r'[ \t\n\r\-]', '', s)
    if not re.match(r'^([0-9A-Fa-f]{2})+$', d):
        raise Malformed('data %r' % s)
    return [int(d[i:i + 2], 16) for i in range(0, len(d), 2)]


def ref_calls(cmds, cap):
    """the API calls a list of reference commands stands for, on the reference model; yields dict calls; a
    variable stands for one next_id() result"""
    return cmds


# ====================================================================== execution

def _abstract(w, vm, st, N, cap):
    """terms describing the abstract state of the graph in st"""
    class C:
        pass
    c = C(); c.w = w; c.vm = vm
    A = {}
    A['T'] = [to_bv(w.tag(st, i), 64) for i in range(cap)]
    A['P'] = [to_bv(w.pers(st, i), 8) for i in range(cap)]
    A['E'] = [to_bv(w.elen(st, i), 64) for i in range(cap)]
    A['tgt'] = [[to_bv(w.etgt(st, i, j), 64) for j in range(N)] for i in range(cap)]
    used = lambda i, j: z3.And(A['T'][i] != 0, z3.UGT(A['E'][i], j))
    A['lab'] = [[decode_label(c, st, w.a_ekey(i, j), used(i, j)) if vm.feasible(st, used(i, j)) else None for j in range(N)] for i in range(cap)]
    A['dat'] = []
    for i in range(cap):
        hd = z3.And(A['T'][i] != 0, A['P'][i] != EMPTY)
        if vm.feasible(st, hd):
            sd = st.fork()
            sd.assume(hd)
            A['dat'].append(decode_hex(c, sd, w.a_data(i)))
        else:
            A['dat'].append(None)
    A['cnt'] = [to_bv(w.cnt(st, b), 64) for b in range(NSLOT)]
    A['ctr'] = [to_bv(w.ctr(st, b), 64) for b in range(NSLOT)]
    A['items'] = [[to_bv(w.item(st, b, k), 64) for k in range(min(cap, NSLOT))] for b in range(NSLOT)]
    A['pos'] = to_bv(w.pos(st), 64)
    return A


def _lab_eq(da, db):
    cs = []
    for ca, ka, wa in da:
        for cb, kb, wb in db:
            if ka != kb:
                cs.append(z3.Not(z3.And(ca, cb)))
            else:
                n = 8 if ka == G.STR else 1
                cs.append(z3.Implies(z3.And(ca, cb), z3.And(*[wa[i] == wb[i] for i in range(n)])))
    return z3.And(*cs)


def _dat_eq(da, db):
    cs = []
    for ca, na, ba in da:
        for cb, nb, bb in db:
            eq = [na == nb]
            for k in range(max(len(ba), len(bb))):
                x = ba[k] if k < len(ba) else None
                y = bb[k] if k < len(bb) else None
                if x is None or y is None:
                    eq.append(z3.ULE(na, k))
                else:
                    eq.append(z3.Implies(z3.UGT(na, k), x == y))
            cs.append(z3.Implies(z3.And(ca, cb), z3.And(*eq)))
    return z3.And(*cs)


def _state_eq(A, B, N, cap, pos='eq'):
    """clauses: the two abstract states are equal (what an absent slot holds is not observable)"""
    cl = []
    for i in range(cap):
        here = A['T'][i] != 0
        v = [A['T'][i] == B['T'][i], z3.Implies(here, z3.And(A['P'][i] == B['P'][i], A['E'][i] == B['E'][i]))]
        for j in range(N):
            la, lb = A['lab'][i][j], B['lab'][i][j]
            used = z3.And(here, z3.UGT(A['E'][i], j))
            if la is None or lb is None:
                if la is not lb:
                    v.append(z3.Not(used))
                continue
            v.append(z3.Implies(used, z3.And(A['tgt'][i][j] == B['tgt'][i][j], _lab_eq(la, lb))))
        da, db = A['dat'][i], B['dat'][i]
        hd = z3.And(here, A['P'][i] != EMPTY)
        if da is None or db is None:
            if da is not db:
                v.append(z3.Not(hd))
        else:
            v.append(z3.Implies(hd, _dat_eq(da, db)))
        cl.append(('script:vertex%d' % i, z3.And(*v)))
    # pos='ge': a malformed command may have consumed ids for its $variables before its fault was noticed (the property
    # asks for Err and for the EARLIER commands; it does not forbid this)
    g = [A['pos'] == B['pos'] if pos == 'eq' else z3.UGE(A['pos'], B['pos'])]
    for b in range(2, NSLOT):
        g.append(A['cnt'][b] == B['cnt'][b])
        g.append(A['ctr'][b] == B['ctr'][b])
        for k in range(len(A['items'][b])):
            g.append(z3.Implies(z3.UGT(A['cnt'][b], k), A['items'][b][k] == B['items'][b][k]))
    cl.append(('script:groups-and-position', z3.And(*g)))
    return cl


def _run_api(w, vm, st, api, upto=None):
    """the API calls of `api` applied directly to the graph in st: list of (state, var table)"""
    states = [(st, {})]
    for k, c in enumerate(api):
        if upto is not None and k >= upto:
            break
        nxt = []
        for s0, vars0 in states:
            def ids(r, s1, vt):
                if r[0] == 'lit':
                    return [(s1, vt, r[1])]
                if r[1] in vt:
                    return [(s1, vt, vt[r[1]])]
                res = []
                for o in vm.run(s1, w.pfx + 'next_id', [w.g]):
                    if o.kind != 'ret':
                        raise Inconclusive("reference run: next_id ended in %r" % (o,))
                    v = o.value if isinstance(o.value, int) else vm.concretize(o.st, o.value)
                    vt2 = dict(vt); vt2[r[1]] = v
                    res.append((o.st, vt2, v))
                return res
            if c[0] == 'ADD':
                for s1, vt, v in ids(c[1], s0, vars0):
                    for o in vm.run(s1, w.pfx + 'add', [w.g, v]):
                        if o.kind != 'ret':
                            raise Inconclusive("reference run: add ended in %r" % (o,))
                        nxt.append((o.st, vt))
            elif c[0] == 'BIND':
                for s1, vt, v1 in ids(c[1], s0, vars0):
                    for s2, vt2, v2 in ids(c[2], s1, vt):
                        lab = c[3]
                        L = SymLabel('api%d' % k, {'s': [0x20] * 8})      # every field a constant, then the ones in use replaced
                        if lab[0] == 'str':
                            chars = lab[1]
                            if len(chars) == 1:
                                L.kind = z3.BitVecVal(G.GREEK, 8); L.c = z3.ZeroExt(24, chars[0])
                            else:
                                L.kind = z3.BitVecVal(G.STR, 8)
                                L.chars = [z3.ZeroExt(24, x) for x in chars] + [z3.BitVecVal(0x20, 32)] * (8 - len(chars))
                        elif lab[0] == 'alpha':
                            val = z3.BitVecVal(0, 64)
                            for d in lab[1]:
                                val = val * 10 + z3.ZeroExt(56, d - 0x30)
                            L.kind = z3.BitVecVal(G.ALPHA, 8); L.n = val
                        elif lab[0] == 'greek':
                            L.kind = z3.BitVecVal(G.GREEK, 8); L.c = lab[1]
                        else:   # a concrete label {'g'|'a'|'s'}
                            L = SymLabel('api%d' % k, lab[1])
                        s3, la = w.make_label(s2.fork(), L)
                        for o in vm.run(s3, w.pfx + 'bind', [w.g, v1, v2, la]):
                            if o.kind != 'ret':
                                raise Inconclusive("reference run: bind ended in %r" % (o,))
                            nxt.append((o.st, vt2))
            else:
                for s1, vt, v in ids(c[1], s0, vars0):
                    s2 = s1.fork()
                    bs = c[2]
                    src = w.scratch(s2, max(1, len(bs)), 'arg.bytes')
                    for i, b in enumerate(bs):
                        w.wr(s2, src + i, b, 1)
                    hx = w.scratch(s2, w.sz_hex, 'arg.hex')
                    s2 = w.call1(s2, '@hex_from_vec', hx, src, len(bs)).st
                    for o in vm.run(s2, w.pfx + 'put', [w.g, v, hx]):
                        if o.kind != 'ret':
                            raise Inconclusive("reference run: put ended in %r" % (o,))
                        nxt.append((o.st, vt))
        states = nxt
    return states


def _setup(env, N, cap):
    w = env.world(N, cap)
    vm = w.vm
    vm.opts['step_cap'] = 60_000_000
    vm.opts['check_flags'] = False     # nuw/nsw/exact violations give poison, not UB; the regex crates rely on that (speculated adds)
    vm.opts['max_cands'] = 300
    vm.opts['run_cands'] = 300
    import os
    if os.environ.get('SEIR_SLOW'):
        vm.solver.slow = float(os.environ['SEIR_SLOW'])
        vm.opts['trace_big'] = 150
    return w, vm, w.concrete0.fork()


def _conc_text(cells, model):
    return bytes((x if isinstance(x, int) else model.eval(x[0], model_completion=True).as_long()) for x in cells)


def _conc_api(api, model):
    ev = lambda t: t if isinstance(t, int) else model.eval(t, model_completion=True).as_long()
    out = []
    for c in api:
        if c[0] == 'ADD':
            out.append({'op': 'add', 'v': list(c[1])})
        elif c[0] == 'BIND':
            lab = c[3]
            if lab[0] == 'str':
                ch = [ev(x) for x in lab[1]]
                L = {'g': ch[0]} if len(ch) == 1 else {'s': ch + [0x20] * (8 - len(ch))}
            elif lab[0] == 'alpha':
                L = {'a': int(bytes(ev(x) for x in lab[1]).decode())}
            elif lab[0] == 'greek':
                L = {'g': ev(lab[1])}
            else:
                L = lab[1]
            out.append({'op': 'bind', 'v1': list(c[1]), 'v2': list(c[2]), 'a': L})
        else:
            out.append({'op': 'put', 'v': list(c[1]), 'd': {'data': [ev(b) for b in c[2]]}})
    return out


def split_program(prog, vars_, k):
    """the first k commands become a prefix applied through the API before the script runs; a variable the prefix
    defines is a literal id in the script part (the script's own variable table starts empty)"""
    pre, rest = prog[:k], prog[k:]
    defined = {r[1] for c in pre for r in c[1:] if isinstance(r, tuple) and r and r[0] == 'var'}

    def fix(r):
        if isinstance(r, tuple) and r and r[0] == 'var' and r[1] in defined:
            return ('lit', vars_[r[1]])
        return r
    return pre, [tuple(fix(x) for x in c) for c in rest]


def ob_script(env, N, cap, seed, ncmd, prefix=0):
    rnd = random.Random(seed)
    prog, vars_ = gen_program(rnd, cap, N, ncmd + prefix)
    pre, prog = split_program(prog, vars_, prefix)
    t, api = render(prog, rnd, max_symws=(2 if ncmd <= 3 else 1))
    w, vm, st = _setup(env, N, cap)
    doms = dict(t.dom)
    if pre:
        # a non-empty start: the prefix (symbolic labels and data of its own) is applied through the API; every state it
        # can end in is a start state for both runs
        tp, api_pre = render(pre, rnd, max_symws=0, pfx='pre.')
        for cns in tp.cons:
            st.assume(cns)
        starts = [s for s, vt in _run_api(w, vm, st, api_pre)]

        def pre_calls(model):
            out, seen = [], set()
            for c in _conc_api(api_pre, model):
                for key in ('v', 'v1', 'v2'):
                    if key in c:
                        r = c[key]
                        if r[0] == 'var':
                            if r[1] not in seen:
                                seen.add(r[1])
                                out.append({'op': 'next_id'})
                            c[key] = vars_[r[1]]
                        else:
                            c[key] = r[1]
                if c['op'] == 'put':
                    c['d'] = {'data': c['d']['data'], 'inline': len(c['d']['data']) <= 8}
                out.append(c)
            return out
    else:
        starts = [st]
        pre_calls = None
    for st in starts:
        _script_from(env, N, cap, seed, prog, t, api, w, vm, st.fork(), doms, len(pre), len(starts), pre_calls)
    env.account(w)


def _script_from(env, N, cap, seed, prog, t, api, w, vm, st, doms, npre, nstarts, pre_calls=None):
    for cns in t.cons:
        st.assume(cns)
    vm.opts['domains'] = doms
    buf = w.scratch(st, max(1, len(t.cells)), 'arg.text')
    st.mem.write_cells(buf, list(t.cells))
    err = w.scratch(st, 24, 'out.err')
    skel = ''.join(t.skel)
    call = {'op': 'deploy'}
    # reference run first (cheap): the API calls on the same pre-state
    refs = _run_api(w, vm, st, api)
    refA = [(_abstract(w, vm, s, N, cap), s) for s, vt in refs]
    outs = vm.run(st, w.pfx + 'deploy', [w.g, buf, len(t.cells), err])
    n = 0
    for o in outs:
        n += 1
        if o.kind != 'ret':
            m = vm.get_model(o.st)
            if m is not None:
                _viol(env, N, cap, o.kind, ['script:returns'], t, api, m, detail=o.detail, pre_calls=pre_calls)
            continue
        s1 = o.st
        cnt = to_bv(o.value, 64)
        bad = cnt != len(prog)
        if vm.feasible(s1, bad):
            _viol(env, N, cap, 'clause', ['script:count'], t, api, vm.get_model(s1, bad), pre_calls=pre_calls)
            continue
        A = _abstract(w, vm, s1, N, cap)
        paired = 0
        for B, sb in refA:
            s2 = s1.fork()
            for cnd in sb.pc[len(st.pc):]:
                s2.assume(cnd)
            if not vm.solver.check(s2.pc, want_model=False)[0]:
                continue
            paired += 1
            cl = _state_eq(A, B, N, cap)
            conj = z3.And(*[f for _, f in cl])
            ok, model = vm.solver.oneshot(s2.pc, z3.Not(conj))
            if ok:
                failing = [nm_ for nm_, f in cl if not z3.is_true(model.eval(f, model_completion=True))] or [cl[0][0]]
                _viol(env, N, cap, 'clause', failing, t, api, model, pre_calls=pre_calls)
        if not paired:
            raise Inconclusive("no reference path is compatible with a script path")
    env.cover('the script was deployed', n >= 1)
    env.sample({'op': 'deploy vs direct calls', 'N': N, 'cap': cap, 'seed': seed, 'program': [list(map(str, c)) for c in prog], 'text skeleton (c label char, 9 digit, f/F hex digit, G g two-byte char, ␣ symbolic white space, · comment char)': skel,
                'symbolic bytes': sum(1 for x in t.cells if not isinstance(x, int)), 'script paths': n, 'reference paths': len(refs),
                'commands applied through the API before the script (non-empty start)': npre, 'start states': nstarts})


def _viol(env, N, cap, kind, clauses, t, api, model, detail=None, extra=None, pre_calls=None):
    if model is None:
        return
    text = list(_conc_text(t.cells, model))
    cc = {'op': 'deploy', 'text': text}
    job = {'n': N, 'cap': cap, 'pre': None, 'calls': (pre_calls(model) if pre_calls else []) + [cc], 'expect': _conc_api(api, model)}
    if extra:
        job.update(extra)
    env.violation(kind=kind, clauses=clauses, props=['C14'] + (['C07'] if kind in ('memerr',) else []), call={'op': 'deploy', 'text': bytes(text).decode('utf-8', 'replace')}, job=job, detail=detail)


# ---------------------------------------------------------------------- single fault

def ob_fault(env, N, cap, seed, ncmd, pos_seed):
    rnd = random.Random(seed)
    prog, _vars = gen_program(rnd, cap, N, ncmd)
    t, api = render(prog, rnd, max_symws=0)
    # make the rendering concrete: fixed values for the payload
    fill = random.Random(seed + 1)
    conc = []
    for x in t.cells:
        conc.append(x)
    w, vm, st = _setup(env, N, cap)
    s0 = st.fork()
    for cns in t.cons:
        s0.assume(cns)
    m0 = vm.get_model(s0)
    base = list(_conc_text(t.cells, m0))
    ascii_pos = [i for i, b in enumerate(base) if b < 0x80]
    prnd = random.Random(pos_seed)
    # the position is drawn per category of byte (command letter, parenthesis, comma, id digit, hex high / low digit, ...),
    # the categories taking turns, so that a few dozen draws visit every kind of fault
    cats = sorted({t.tags[i] for i in ascii_pos})
    cat = cats[pos_seed % len(cats)]
    p = prnd.choice([i for i in ascii_pos if t.tags[i] == cat])
    b = z3.BitVec('fault', 8)
    st.assume(z3.And(z3.ULT(b, 0x80), b != base[p]))
    vm.opts['domains'] = {'fault': [x for x in range(128) if x != base[p]]}
    cells = list(base)
    cells[p] = (b, 0)
    buf = w.scratch(st, len(cells), 'arg.text')
    st.mem.write_cells(buf, cells)
    err = w.scratch(st, 24, 'out.err')
    outs = vm.run(st, w.pfx + 'deploy', [w.g, buf, len(cells), err])
    n = 0
    kinds = {}
    T = Text(); T.cells = cells
    for o in outs:
        n += 1
        m = vm.get_model(o.st)
        if m is None:
            continue
        txt = _conc_text(cells, m).decode('utf-8')
        cmds, bad = ref_parse(txt)
        if o.kind != 'ret':
            if bad is not None and _within(cmds, cap, N):
                _fviol(env, N, cap, o.kind, ['fault:malformed-panics'], txt, cmds, detail=o.detail)
            elif bad is None and _within(cmds, cap, N):
                _fviol(env, N, cap, o.kind, ['fault:wellformed-panics-within-limits'], txt, cmds, detail=o.detail)
            kinds['panic'] = kinds.get('panic', 0) + 1
            continue
        val = to_bv(o.value, 64)
        if bad is not None:
            kinds['err'] = kinds.get('err', 0) + 1
            if not _within(cmds, cap, N):
                continue        # the commands before the fault already leave the limits: unspecified
            if vm.feasible(o.st, val != 0xFFFFFFFFFFFFFFFF):
                _fviol(env, N, cap, 'clause', ['fault:malformed-accepted'], txt, cmds)
                continue
            # the commands before the faulty one have been applied: equal to the direct calls, for the whole path
            api2 = [_api_of(c) for c in cmds]
            refs = _run_api(w, vm, st, api2)
            A = _abstract(w, vm, o.st, N, cap)
            for sb, vt in refs:
                s2 = o.st.fork()
                for cnd in sb.pc[len(st.pc):]:
                    s2.assume(cnd)
                if not vm.solver.check(s2.pc, want_model=False)[0]:
                    continue
                B = _abstract(w, vm, sb, N, cap)
                cl = _state_eq(A, B, N, cap, pos='ge')
                ok, model = vm.solver.oneshot(s2.pc, z3.Not(z3.And(*[f for _, f in cl])))
                if ok:
                    txt2 = _conc_text(cells, model).decode('utf-8')
                    _fviol(env, N, cap, 'clause', ['fault:prefix-not-applied'], txt2, ref_parse(txt2)[0])
        else:
            kinds['ok'] = kinds.get('ok', 0) + 1
            if _within(cmds, cap, N) and vm.feasible(o.st, val != len(cmds)):
                _fviol(env, N, cap, 'clause', ['fault:count'], txt, cmds)
    env.cover('the corrupted script was processed', n >= 1)
    env.sample({'op': 'deploy of a text with one symbolic ASCII byte', 'N': N, 'cap': cap, 'seed': seed, 'text': bytes(base).decode('utf-8'), 'position': p, 'kind of byte': cat, 'original byte': base[p], 'paths': n, 'outcomes': kinds})
    env.account(w)


def _api_of(c):
    if c[0] == 'ADD':
        return ('ADD', c[1])
    if c[0] == 'BIND':
        return ('BIND', c[1], c[2], ('const', c[3]))
    return ('PUT', c[1], list(c[2]))


def _sim(cmds, cap, N, ref=None):
    """run reference commands on the reference model; returns (Ref, within_limits)"""
    from . import refmodel
    ref = ref or refmodel.Ref(cap, N)
    vt = {}

    def rid(r):
        if r[0] == 'lit':
            return r[1]
        if r[1] not in vt:
            cand = [i for i in range(ref.pos, cap) if i not in ref.present]
            if not cand:
                raise refmodel.Limit('no id')
            vt[r[1]] = cand[0]
            ref.pos = cand[0] + 1
        return vt[r[1]]
    try:
        for c in cmds:
            if c[0] == 'ADD':
                ref.call({'op': 'add', 'v': rid(c[1])})
            elif c[0] == 'BIND':
                v1 = rid(c[1]); v2 = rid(c[2])
                ref.call({'op': 'bind', 'v1': v1, 'v2': v2, 'a': c[3]})
            else:
                ref.call({'op': 'put', 'v': rid(c[1]), 'd': {'data': list(c[2])}})
    except refmodel.Limit:
        return ref, False
    return ref, True


def _within(cmds, cap, N):
    return _sim(cmds, cap, N)[1]


def _fviol(env, N, cap, kind, clauses, txt, cmds, detail=None):
    text = list(txt.encode('utf-8'))
    job = {'n': N, 'cap': cap, 'pre': None, 'calls': [{'op': 'deploy', 'text': text}], 'fault': True}
    env.violation(kind=kind, clauses=clauses, props=['C14'], call={'op': 'deploy', 'text': txt}, job=job, detail=detail)


# ====================================================================== native judgement

def judge_script(job, lines, crashed, stderr=''):
    """the text is parsed by the reference grammar; the native result must be: Err iff malformed (after the
    commands before the fault), otherwise the count and the state the direct calls give on the reference model"""
    from . import refmodel
    out = []
    c0 = job['calls'][-1]
    txt = bytes(c0['text']).decode('utf-8')
    cmds, bad = ref_parse(txt)
    cap, N = job['cap'], job['n']
    ref0 = refmodel.Ref(cap, N)
    try:
        for c in job['calls'][:-1]:
            if c['op'] == 'next_id':
                cand = [i for i in range(ref0.pos, cap) if i not in ref0.present]
                ref0.pos = cand[0] + 1
            else:
                ref0.call(c)
    except (refmodel.Limit, IndexError):
        return [], {'note': 'the prefix leaves the limits'}
    ref, within = _sim(cmds, cap, N, ref0)
    if not within:
        return [], {'note': 'the program leaves the limits'}
    if len(lines) < len(job['calls']) + 1:
        m = [l for l in stderr.splitlines() if 'panicked' in l]
        return ["deploy_to panicked on %s text %r: %s" % ('the malformed' if bad else 'the well-formed', txt, (m[-1] if m else stderr[-200:]).strip())], {}
    ret = lines[-1]['ret']
    snap = lines[-1]['snap']
    if bad is not None:
        if ret.get('ok'):
            out.append("the malformed text %r (%s) is accepted with count %r" % (txt, bad, ret.get('count')))
    else:
        if not ret.get('ok'):
            out.append("the well-formed text %r is rejected: %s" % (txt, ret.get('error')))
        elif ret.get('count') != len(cmds):
            out.append("count %r for %d commands in %r" % (ret.get('count'), len(cmds), txt))
    d = refmodel.compare(ref, snap)
    if d:
        out.append("after deploying %r the graph differs from the direct calls: %s" % (txt, '; '.join(d)))
    if (snap['next_v'] != ref.pos) if bad is None else (snap['next_v'] < ref.pos):
        out.append("allocator position %d, the direct calls leave %d" % (snap['next_v'], ref.pos))
    bi = refmodel.check_inv(snap)
    if bi:
        out.append("the graph is inconsistent after the script: %s" % (bi[:3],))
    return out, {}


def tasks(tier):
    from .harness import Task
    ts = []
    nq, nf = (16, 32) if tier == 'quick' else (60, 120)
    for k in range(nq):
        ncmd = 2 + k % 5
        pre = (0, 2, 0, 3)[k % 4]
        ts.append(Task("deploy == calls: program %d (%d commands%s) N=2 cap=5" % (k, ncmd, (' after %d direct calls' % pre) if pre else ''), 'seir.pscript:ob_script', N=2, cap=5, seed=1000 + k, ncmd=ncmd,
                       prefix=pre, _weight=10 * ncmd))
    for k in range(nf):
        ncmd = 2 + k % 3
        ts.append(Task("single fault: program %d (%d commands), position draw %d" % (k % 12, ncmd, k), 'seir.pscript:ob_fault', N=2, cap=5, seed=2000 + k % 12, ncmd=ncmd, pos_seed=k, _weight=8 * ncmd))
    return ts
