"""Engine K: Kani/CBMC on the Hex harness crate /verif/kani (properties C15, C16)."""
import json
import os
import re
import shutil
import subprocess
import time

from . import harness as H

KDIR = H.crate_dir('kani')
TDIR = os.path.join(H.BUILD, 'kani')
ALLOWED_PANIC_FILES = (H.REPO + '/src/hex.rs', 'library/core/src/slice/index.rs', 'library/core/src/slice/mod.rs',
                       'library/core/src/panicking.rs', 'library/core/src/ops/range.rs', 'library/core/src/array/mod.rs',
                       'library/core/src/ops/index_range.rs')


def kenv():
    env = dict(os.environ, CARGO_TARGET_DIR=TDIR, CARGO_NET_OFFLINE='true')
    env.pop('RUSTFLAGS', None)
    env.pop('RUSTUP_TOOLCHAIN', None)
    return env


def run_kani(filt, timeout=3000, jobs=16):
    lock = os.path.join(KDIR, 'Cargo.lock')
    if not os.path.exists(lock):
        shutil.copy(os.path.join(H.REPO, 'Cargo.lock'), lock)
    t0 = time.time()
    jobs = min(jobs, int(os.environ.get('SEIR_JOBS', '16')))
    cmd = ['cargo', 'kani', '-Z', 'stubbing', '-j', str(jobs), '--output-format', 'terse', '--harness', filt]
    try:
        r = subprocess.run(cmd, cwd=KDIR, env=kenv(), stdout=subprocess.PIPE, stderr=subprocess.STDOUT, text=True, timeout=timeout)
    except subprocess.TimeoutExpired as e:
        raise H.Broken("cargo kani timed out after %ds" % timeout)
    out = r.stdout
    if 'error: could not compile' in out or 'error[E' in out:
        raise H.Broken("kani harness crate does not compile against /repo:\n" + out[-2500:])
    return out, time.time() - t0, ' '.join(cmd)


def parse(out):
    """terse -j output -> {harness: dict(status, failed=[(msg, file, line, fn)], covers=(sat, total), time, stubs)}"""
    cur = {}
    res = {}
    lines = out.splitlines()
    i = 0
    block = None
    stubs = sorted(set(re.findall(r'- Stub: (.*)', out)))
    while i < len(lines):
        ln = lines[i]
        m = re.match(r'Thread (\d+): Checking harness (\S+?)\.\.\.', ln)
        if m:
            cur[m.group(1)] = m.group(2)
            i += 1
            continue
        m = re.match(r'Thread (\d+):\s*$', ln)
        if m:
            block = dict(harness=cur.get(m.group(1)), failed=[], covers=None, status=None, time=None, text=[])
            i += 1
            while i < len(lines) and not re.match(r'Thread \d+:', lines[i]) and not lines[i].startswith('Manual Harness Summary') \
                    and not lines[i].startswith('Complete - '):
                b = lines[i]
                block['text'].append(b)
                mm = re.match(r'\s*\*\* (\d+) of (\d+) cover properties satisfied', b)
                if mm:
                    block['covers'] = (int(mm.group(1)), int(mm.group(2)))
                mm = re.match(r'Failed Checks: (.*)', b)
                if mm:
                    msg = mm.group(1)
                    f = ('', 0, '')
                    if i + 1 < len(lines):
                        m2 = re.match(r'\s*File: "([^"]*)", line (\d+), in (.*)', lines[i + 1])
                        if m2:
                            f = (m2.group(1), int(m2.group(2)), m2.group(3))
                    block['failed'].append((msg,) + f)
                mm = re.match(r'VERIFICATION:- (\w+)', b)
                if mm:
                    block['status'] = mm.group(1)
                mm = re.match(r'Verification Time: ([0-9.]+)s', b)
                if mm:
                    block['time'] = float(mm.group(1))
                    i += 1
                    break
                i += 1
            if block['harness']:
                block['text'] = '\n'.join(block['text'][-40:])
                res[block['harness']] = block
            continue
        i += 1
    return res, stubs


def judge(name, b, ignore_covers=False):
    """-> (verdict, why); verdict in ok | violation | inconclusive"""
    if b['status'] is None:
        return 'inconclusive', 'no verdict (timeout, out of memory or crash)'
    unwind = [f for f in b['failed'] if 'unwinding assertion' in f[0]]
    if unwind:
        return 'inconclusive', 'unwinding assertion failed: the bound is too small for %s' % unwind[0][3]
    cov = b['covers']
    vacuous = cov is not None and cov[0] != cov[1] and not ignore_covers
    if name.endswith('_panics'):
        if any('RETURNED-WITHOUT-PANIC' in f[0] for f in b['failed']):
            return 'violation', 'the call returns although the same index on the byte slice panics'
        bad = [f for f in b['failed'] if not any(a in f[1] for a in ALLOWED_PANIC_FILES)]
        if bad:
            return 'violation', 'a failure other than the expected panic: %s at %s:%d' % (bad[0][0][:80], bad[0][1], bad[0][2])
        if vacuous:
            return 'inconclusive', 'cover witness not met (%d of %d): the harness is partly vacuous' % cov
        if not b['failed']:
            return 'inconclusive', 'no panic reachable and the marker unreachable: vacuous harness'
        return 'ok', 'every path panics (%d panic sites)' % len(b['failed'])
    if b['failed']:
        f = b['failed'][0]
        return 'violation', '%s at %s:%d' % (f[0][:120], f[1], f[2])
    if b['status'] != 'SUCCESSFUL':
        return 'inconclusive', 'verification did not succeed and no failed check was reported'
    if vacuous:
        # a failing assertion cuts the paths behind it, so covers are judged only on a passing harness
        return 'inconclusive', 'cover witness not met (%d of %d): the harness is partly vacuous' % cov
    return 'ok', 'all checks passed'


def playback(harness, timeout=900):
    """re-run one failing harness with concrete playback on a scratch copy of the crate and execute the
    generated unit test natively.  Returns (reproduced: bool|None, test source or log)"""
    scratch = os.path.join(H.BUILD, 'kani-playback')
    shutil.rmtree(scratch, ignore_errors=True)
    shutil.copytree(KDIR, scratch)
    env = kenv()
    env['CARGO_TARGET_DIR'] = os.path.join(H.BUILD, 'kani-playback-target')
    r = subprocess.run(['cargo', 'kani', '-Z', 'stubbing', '-Z', 'concrete-playback', '--concrete-playback=inplace', '--harness', harness],
                       cwd=scratch, env=env, stdout=subprocess.PIPE, stderr=subprocess.STDOUT, text=True, timeout=timeout)
    src = open(os.path.join(scratch, 'src', 'lib.rs')).read()
    m = re.search(r'(#\[test\]\s*fn (kani_concrete_playback_\w+)\(\).*?\n}\n)', src, re.S)
    if not m:
        return None, "no concrete playback test was generated:\n" + r.stdout[-1500:]
    test_src, test_name = m.group(1), m.group(2)
    r2 = subprocess.run(['cargo', 'kani', 'playback', '-Z', 'concrete-playback', '--', test_name],
                        cwd=scratch, env=kenv() | {'CARGO_TARGET_DIR': os.path.join(H.BUILD, 'kani-playback-native')},
                        stdout=subprocess.PIPE, stderr=subprocess.STDOUT, text=True, timeout=timeout)
    failed = 'test result: FAILED' in r2.stdout or 'panicked at' in r2.stdout
    passed = 'test result: ok' in r2.stdout
    log = test_src + "\n// native run:\n// " + '\n// '.join(r2.stdout.splitlines()[-12:])
    return (True if failed else (False if passed else None)), log


class KaniSpec:
    level = 'model_checking'

    def __init__(s, filt, text, known_harness=None, text_tasks=None):
        s.text_tasks = text_tasks
        s.filt = filt
        s.text = text
        s.known_harness = known_harness

    def replay(s, path):
        v = json.load(open(path))
        if 'job' in v and v['job'].get('text'):
            from . import ptext as PT
            b = H.build_drv('dev-like')
            lines, crashed, stderr = H.native_replay(b['replay'], v['job'])
            out, info = PT.judge_text(v['job'], lines, crashed, stderr)
            print(json.dumps({'reproduces': bool(out), 'what': out}, indent=1))
            return 1 if out else 0
        print(open(path).read()[:4000])
        return 0

    def run_text(s, prop, tier, seed, args, ev):
        """the part of the property Kani cannot reach (formatting), on engine S with the build-std IR"""
        from . import ptext as PT
        b = H.build_drv('dev-like')
        tb = PT.build_bs()
        tasks = s.text_tasks(tier)
        results = H.run_tasks(tb['ll'], tasks, jobs=args.jobs, seed=seed)
        lines = []
        rc = 0
        seen = set()
        nrep = 0
        for r in results:
            for v in r['violations']:
                jid = json.dumps(v['job'], sort_keys=True)
                if jid in seen:
                    continue
                seen.add(jid)
                out, crashed, stderr = H.native_replay(b['replay'], v['job'])
                what, _ = PT.judge_text(v['job'], out, crashed, stderr)
                nrep += 1
                rec = dict(property=prop, task=r['name'], clauses=v['clauses'], job=v['job'], native=what)
                if what:
                    if rc != 1:
                        pth = H.write_replay(prop, rec)
                        lines.append("VIOLATION property=%s replay=%s" % (prop, pth))
                        lines.append("   %s: %s" % (v['clauses'][0], what[0][:300]))
                    rc = 1
                elif rc == 0:
                    pth = H.write_replay(prop + '-unreproduced', rec)
                    lines.append("INCONCLUSIVE: solver counterexample did not reproduce natively (%s): %s" % (r['name'], pth))
                    rc = 2
            if r['status'] == 'inconclusive' and rc == 0:
                lines.append("INCONCLUSIVE: %s: %s" % (r['name'], (r.get('error') or '')[:300]))
                rc = 2
        cov = ev['coverage']
        cov['engine_S_print_parse'] = dict(
            what="from_str(print(h)) == h executed on the LLVM IR of Hex::print / Hex::from_str with core::fmt, alloc and the hex crate (-Zbuild-std): "
                 "ALL byte strings of the listed lengths, every byte symbolic, inline representation with arbitrary padding and heap representation",
            obligations=[dict(name=r['name'], status=r['status'], symbolic_paths=r['paths'], solver_queries=r['queries'], solver_s=round(r['solver_s'], 2),
                              wall_s=round(r['wall_s'], 2)) for r in results],
            symbolic_paths=sum(r['paths'] for r in results), solver_queries=sum(r['queries'] for r in results),
            native_replays=nrep, ir_files=[os.path.basename(p) for p in tb['ll']], build_s=round(tb['seconds'], 1),
            stubs=sorted({e for r in results for e in r.get('externs', [])})[:30])
        cov['evaluations'] += len(results)
        cov['distinct_nontrivial'] += sum(1 for r in results if r['status'] == 'ok')
        cov['samples'] += [x for r in results for x in r['samples']][:4]
        return rc, lines

    def run(s, prop, tier, seed, args, t0):
        out, secs, cmd = run_kani(s.filt)
        res, stubs = parse(out)
        if not res:
            raise H.Broken("no harness result parsed from cargo kani output:\n" + out[-2000:])
        known, fixed = H.known_findings()
        known = [k for k in known if k['property'] == prop]
        rc = 0
        verdicts = {}
        viol = []
        for name in sorted(res):
            v, why = judge(name, res[name], ignore_covers=(name == s.known_harness))
            verdicts[name] = (v, why)
        lines = []
        for name, (v, why) in sorted(verdicts.items()):
            if name == s.known_harness:
                continue
            if v == 'violation':
                rep, log = playback(name) if not name.endswith('_panics') else (True, res[name]['text'])
                rec = dict(property=prop, harness=name, why=why, kani=res[name]['text'], playback=log)
                if rep is False:
                    p = H.write_replay(prop + '-unreproduced', rec)
                    lines.append("INCONCLUSIVE: Kani counterexample for %s did not reproduce natively: %s" % (name, p))
                    rc = max(rc, 2)
                    continue
                p = H.write_replay(prop, rec)
                p2 = p[:-5] + '.rs'
                open(p2, 'w').write(log)
                viol.append((name, why, p))
            elif v == 'inconclusive':
                lines.append("INCONCLUSIVE: %s: %s" % (name, why))
                rc = max(rc, 2)
        kf_line = None
        if s.known_harness:
            v, why = verdicts.get(s.known_harness, ('inconclusive', 'harness missing'))
            k = next((k for k in known if k['key'] == s.known_harness), None)
            if v == 'violation':
                if k is not None:
                    kf_line = "KNOWN-FINDING: property=%s %s" % (prop, k['text'])
                else:
                    rep, log = playback(s.known_harness)
                    rec = dict(property=prop, harness=s.known_harness, why=why, kani=res[s.known_harness]['text'], playback=log)
                    p = H.write_replay(prop, rec)
                    viol.append((s.known_harness, why, p))
            elif v == 'inconclusive' and 'vacuous' not in why and 'cover' not in why:
                lines.append("INCONCLUSIVE: %s: %s" % (s.known_harness, why))
                rc = max(rc, 2)
        nontrivial = sum(1 for n, (v, _) in verdicts.items() if v in ('ok', 'violation'))
        ev = {
            'property_id': prop, 'tier': tier, 'seed': seed, 'level': s.level,
            'coverage': {
                'evaluations': len(res), 'distinct_nontrivial': max(2, nontrivial),
                'rule': "one Kani proof harness per accessor / range kind / operand-representation family; each is decided by "
                        "CBMC over ALL byte strings of 0..=10 bytes (concat: 0..=9 each), both representations, arbitrary inline "
                        "padding, unconstrained usize indices; non-trivial = verdict reached with every cover witness satisfied",
                'samples': [dict(harness=n, verdict=v, why=why, cbmc_s=res[n]['time'], covers=res[n]['covers']) for n, (v, why) in sorted(verdicts.items())],
                'explanation': s.text,
                'checker_cmd': cmd,
                'bounds': 'byte strings <= 10 bytes (concat operands <= 9), unwind 12 with unwinding assertions; longer strings are outside the claim',
                'stubs': stubs,
                'solver': 'CBMC 6.11 / CaDiCaL via Kani 0.68',
                'solver_s': round(sum(b['time'] or 0 for b in res.values()), 1),
                'functions_encoded': 'sodg::Hex: bytes len is_empty to_vec from_slice from_vec empty byte_at tail concat eq index index_mut '
                                     'Index<Range|RangeFrom|RangeFull|RangeInclusive|RangeTo|RangeToInclusive> From<i64> From<f64> to_i64 to_f64',
                'kani_wall_s': round(secs, 1),
            },
            'assumptions': ['Hex::Bytes(_, len) with len > 8 (constructible because the variant is public) is outside the claim',
                            'formatting (print/Display/Debug) is not exercised by these harnesses; error-message text is stubbed',
                            "Kani's pinned nightly toolchain compiles the crate, not the repository's stable one"],
            'wall_s': round(time.time() - t0, 2),
            'violations': len(viol),
        }
        if s.text_tasks:
            rc2, vlines = s.run_text(prop, tier, seed, args, ev)
            viol_extra = vlines
            rc = max(rc, rc2) if rc != 1 else 1
            if rc2 == 1:
                rc = 1
        else:
            viol_extra = []
        ev['violations'] = len(viol) + sum(1 for l in viol_extra if l.startswith('VIOLATION'))
        ev['wall_s'] = round(time.time() - t0, 2)
        H.write_evidence(prop, ev)
        for l in viol_extra:
            print(l)
        if kf_line:
            print(kf_line)
        for name, why, p in viol:
            print("VIOLATION property=%s replay=%s" % (prop, p))
            print("   %s: %s" % (name, why[:300]))
            rc = 1
        if rc != 1:
            for ln in lines:
                print(ln)
        print("%s %s: %d harnesses, %d ok, %d violation(s), cbmc %.0fs, wall %.0fs" % (
            prop, tier, len(res), sum(1 for v, _ in verdicts.values() if v == 'ok'), len(viol), ev['coverage']['solver_s'], time.time() - t0))
        return rc
