"""C11 / C12: merge() executed on the build-std IR (std HashMap/HashSet with hashbrown, the recursive
descent, put/bind/add/next_id/kid/kids of the real crate, anyhow + format! on the error path).

Two graphs live in one state: g (the receiver, `Ctx`'s graph, Inv assumed) and h (a second instance of
the same configuration, built by `World.second`, Inv assumed as well).  Per task the *structure* of both
is fixed -- which ids are present, which vertex points at which, which vertices of h carry data, the
group structure (the one a history of add/bind produces: connected vertices share a group) and g's
allocator position -- so that the HashMap from right to left ids hashes and stores concrete ids.  All
labels of both graphs, all data bytes (inline and heap), and the persistence of g's vertices are symbolic:
the real code forks on every label comparison between an edge of h and the edges of the vertex of g it
is mapped to, i.e. every overlap pattern of the two trees is a path."""
import re

import z3

from . import graph as G
from .graph import NSLOT, U, STORED, TAKEN, EMPTY, inv
from .pgraph import Ctx, decode_hex, hex_equals
from .pslice import decode_label, label_is, label_kind_assume, view_of
from .vm import to_bv, cells_to_val, Inconclusive, Terminal

L1 = lambda t: t.encode('utf-8').decode('latin-1')


def components(cap, edges, present):
    """group structure a history of add/bind leaves: connected vertices (edges as undirected) share a slot"""
    comp = {}
    adj = {i: set() for i in present}
    for u in present:
        for t in edges[u]:
            if t in adj:
                adj[u].add(t); adj[t].add(u)
    slot = 2
    grouped = {}
    for i in sorted(present):
        if i in comp or not adj[i]:
            continue
        todo = [i]
        ms = []
        while todo:
            x = todo.pop()
            if x in comp:
                continue
            comp[x] = slot
            ms.append(x)
            todo += sorted(adj[x])
        grouped[slot] = ms
        slot += 1
    return grouped


def fixed_struct(cap, edges, present, pers=None, pos=None):
    fx = {}
    grouped = components(cap, edges, present)
    tag_of = {m: b for b, ms in grouped.items() for m in ms}
    for i in range(cap):
        fx['tag%d' % i] = tag_of.get(i, 1) if i in present else 0
        fx['ne%d' % i] = len(edges[i])
        for j, t in enumerate(edges[i]):
            fx['t%d_%d' % (i, j)] = t
        if pers is not None and pers[i] is not None:
            fx['pers%d' % i] = pers[i]
    for b in range(2, NSLOT):
        ms = grouped.get(b, [])
        fx['cnt%d' % b] = len(ms)
        for k, m in enumerate(ms):
            fx['m%d_%d' % (b, k)] = m
    if pos is not None:
        fx['pos'] = pos
    return fx


def reach(edges, v):
    out, todo = [], [v]
    while todo:
        x = todo.pop(0)
        if x in out:
            continue
        out.append(x)
        todo += [t for t in edges[x]]
    return out


class _Split(Exception):
    def __init__(s, term, vals):
        s.term = term
        s.vals = vals


def ob_merge(env, N, cap, ge, gp, gpos, he, hp, hpers, left, right, lab='alpha', gpers=None, expect='ok', hash_seed=0x42, gsel=None, hsel=None):
    """ge/he: targets per vertex of g/h; gp/hp: present ids; hpers: persistence per vertex of h (fixed: it
    drives put()); gpers: per vertex of g, None = symbolic; expect: 'ok' (both trees, everything of h
    reachable from `right`: C11) or 'err' (h has present vertices that `right` does not reach: C12)"""
    fx = fixed_struct(cap, ge, set(gp), gpers, gpos)
    c = Ctx(env, N, cap, fixed=fx)
    w, y, vm = c.w, c.y, c.vm
    vm.opts['hash_seed'] = hash_seed
    vm.opts['max_cands'] = 300
    vm.opts['run_cands'] = 16
    st = c.pre.fork()
    st, hw = w.second(st)
    st, hy = hw.symbolic(fixed=fixed_struct(cap, he, set(hp), hpers, None), st=st, prefix='h.')
    for nme, f in inv(hw, st):
        st.assume(f)
    for i in range(cap):
        for j in range(N):
            label_kind_assume(st, y.ekey[i][j], lab)
            label_kind_assume(st, hy.ekey[i][j], lab)
            for k in range(j + 1, N):
                st.assume(z3.Implies(z3.UGT(hy.elen[i], k), z3.Not(hy.ekey[i][j].eq(hy.ekey[i][k]))))
    # the representation of every datum (0 inline with symbolic length and padding, 1 heap 9 bytes, 2 heap 10) is a task
    # parameter: put() forks on the representation of the old and of the new datum, 9 ways per call otherwise
    for i in range(cap):
        if gsel is not None and gsel[i] is not None:
            st.assume(y.data[i].sel == gsel[i])
        if hsel is not None and hsel[i] is not None:
            st.assume(hy.data[i].sel == hsel[i])
    err = w.scratch(st, 24, 'out.err')
    if not vm.solver.check(st.pc, want_model=False)[0]:
        raise Inconclusive("merge: the pre-state is unsatisfiable (vacuous)")
    c.pre = st
    hsnap = lambda m: hy.concrete(m)
    call = {'op': 'merge', 'left': left, 'right': right, 'right_graph': hsnap}
    T0 = c.T(); P0 = c.P(); E0 = c.E()
    hreach = reach(he, right)
    missed = sorted(set(hp) - set(hreach))
    assert (expect == 'err') == bool(missed), (expect, missed)

    def allowed(key):
        # g's own cells may change (what they become is stated by the other clauses), g's replaced heap data may be
        # freed; everything else that existed before -- h's arenas, h's data buffers -- must be untouched and alive
        if key[0] == 'free':
            return key[1] in c.buf_owner
        return key[0] != 'other'
    outs = vm.run(st, w.pfx + 'merge', [w.g, hw.g, left, right, err])
    n = 0
    n_new = set()
    for o in outs:
        n += 1
        prop = 'C11' if expect == 'ok' else 'C12'
        if o.kind != 'ret':
            _terminal(c, o, call, prop)
            continue
        s1 = o.st
        ok = o.value
        okb = ok if isinstance(ok, z3.BoolRef) else ((to_bv(ok, 8) & 1) == 1)
        if expect == 'err':
            if vm.feasible(s1, okb):
                _report(c, vm.get_model(s1, okb), ['merge:incomplete-but-ok'], call, 'C12')
                continue
            # the error names exactly the vertices it missed
            pp = s1.mem.alloc(8, 8, 'heap', name='scratch.pp').base
            oo = vm.run(s1, '@string_view', [err, pp])
            if len(oo) != 1 or oo[0].kind != 'ret':
                raise Inconclusive("string_view: %r" % (oo,))
            s2 = oo[0].st
            ptr = cells_to_val(s2.mem.read_cells(pp, 8))
            ln = oo[0].value
            if not isinstance(ln, int):
                ln = vm.concretize(s2, ln)
            cells = vm.load_bytes(s2, ptr, ln)
            if not all(isinstance(x, int) for x in cells):
                raise Inconclusive("merge: the error text depends on symbolic data")
            text = bytes(cells).decode('latin-1')
            cl = [('merge-err:names-missed', z3.BoolVal(_names_ok(text, missed)))]
            # h untouched also on the error path
            fr, nd = c.frame(s2, allowed)
            cl += [('merge-pure:' + n_, f) for n_, f in fr]
            c.refute(s2, cl, call, lambda nme: ('C12',))
            continue
        if vm.feasible(s1, z3.Not(okb)):
            _report(c, vm.get_model(s1, z3.Not(okb)), ['merge:ok'], call, 'C11')
            continue
        def _judge(s2):
            T1 = c.T(s2); P1 = c.P(s2); E1 = c.E(s2)
            if not all(z3.is_bv_value(z3.simplify(t)) for t in T1):
                pass
            # ---- the mapping right -> left, followed along the labels in the post-state
            dec1 = {}

            def post_label(u, j):
                if (u, j) not in dec1:
                    dec1[(u, j)] = decode_label(c, s2, w.a_ekey(u, j), z3.UGT(E1[u], j))
                return dec1[(u, j)]

            def must(f):
                return not vm.feasible(s2, z3.Not(f))
            M = {right: left}
            cl = []
            bad = None
            new_ids = []
            for r in hreach:
                u = M[r]
                for j, r2 in enumerate(he[r]):
                    a = hy.ekey[r][j]
                    found = None
                    for k in range(N):
                        if not vm.feasible(s2, z3.UGT(E1[u], k)):
                            continue
                        if must(z3.And(z3.UGT(E1[u], k), label_is(post_label(u, k), a))):
                            found = k
                            break
                    if found is None:
                        bad = "the path %s of the right graph has no counterpart from vertex %d of the left graph" % ((r, j, r2), u)
                        break
                    t = w.etgt(s2, u, found)
                    if not isinstance(t, int):
                        t = z3.simplify(to_bv(t, 64))
                        if not z3.is_bv_value(t):
                            # the target is not decided by the path (the real code did not branch on what decides it):
                            # split on its feasible values and judge every case
                            vals = vm.values_of(s2, t, 16, exact=True)
                            if len(vals) != 1:
                                raise _Split(t, vals)
                            t = vals[0]
                        else:
                            t = t.as_long()
                    if r2 in M and M[r2] != t:
                        bad = "vertex %d of the right graph is mapped twice (%d and %d)" % (r2, M[r2], t)
                        break
                    M[r2] = t
                    # was the edge there before? (the real code forked on exactly this question)
                    was = z3.Or(*[z3.And(z3.UGT(E0[u], k), y.etgt[u][k] == t, y.ekey[u][k].eq(a)) for k in range(N)]) if u in gp else z3.BoolVal(False)
                    if u in gp and must(was):
                        pass
                    else:
                        new_ids.append(t)
                        cl.append(('merge:new-vertex', z3.And(z3.Not(was) if u in gp else z3.BoolVal(True), z3.BoolVal(t < cap and t not in gp))))
                if bad:
                    break
            if bad:
                _report(c, vm.get_model(s2), ['merge:paths'], call, 'C11', detail=bad)
                return
            img = list(M.values())
            cl.append(('merge:injective', z3.BoolVal(len(set(img)) == len(img) and len(set(new_ids)) == len(new_ids))))
            n_new.add(len(new_ids))
            # ---- data: every mapped vertex carries the bytes of its origin
            for r in hreach:
                u = M[r]
                if hpers[r] != EMPTY:
                    dec = decode_hex(c, s2, w.a_data(u))
                    cl.append(('merge:data%d' % r, z3.And(hex_equals(dec, hy.data[r]), P1[u] == STORED)))
            # ---- everything g had is still there; only what h demands is added
            demanded_data = {M[r] for r in hreach if hpers[r] != EMPTY}
            for u in range(cap):
                if u in gp:
                    cl.append(('merge:kept-vertex%d' % u, T1[u] != 0))
                    olds = []
                    for k in range(len(ge[u])):
                        olds.append(z3.Or(*[z3.And(z3.UGT(E1[u], k2), to_bv(w.etgt(s2, u, k2), 64) == ge[u][k], label_is(post_label(u, k2), y.ekey[u][k]))
                                            for k2 in range(N) if vm.feasible(s2, z3.UGT(E1[u], k2))]))
                    cl.append(('merge:kept-edges%d' % u, z3.And(*olds) if olds else z3.BoolVal(True)))
                    if u not in demanded_data:
                        dec = decode_hex(c, s2, w.a_data(u))
                        cl.append(('merge:kept-data%d' % u, z3.And(P1[u] == P0[u], z3.Implies(P0[u] != EMPTY, hex_equals(dec, y.data[u])))))
                else:
                    cl.append(('merge:created%d' % u, (T1[u] != 0) == z3.BoolVal(u in new_ids)))
                    if u in new_ids and u not in demanded_data:
                        cl.append(('merge:blank%d' % u, P1[u] == EMPTY))
                if u in gp or u in new_ids:
                    # every edge after the merge is an old one or one h demands
                    dem = [(hy.ekey[r][j], M[r2]) for r in hreach if M[r] == u for j, r2 in enumerate(he[r])]
                    for k2 in range(N):
                        if not vm.feasible(s2, z3.UGT(E1[u], k2)):
                            continue
                        t2 = to_bv(w.etgt(s2, u, k2), 64)
                        srcs = [z3.And(t2 == ge[u][k], label_is(post_label(u, k2), y.ekey[u][k])) for k in range(len(ge[u]))] if u in gp else []
                        srcs += [z3.And(t2 == t, label_is(post_label(u, k2), a)) for a, t in dem]
                        cl.append(('merge:only-demanded%d.%d' % (u, k2), z3.Implies(z3.UGT(E1[u], k2), z3.Or(*srcs) if srcs else z3.BoolVal(False))))
            # ---- g keeps obeying C01-C03: the representation invariant (counter == recount) holds again
            for nme, f in inv(w, s2):
                cl.append(('merge:inv-' + nme, f))
            # ---- h is unchanged (every cell outside g's own regions and the fresh allocations)
            fr, nd = c.frame(s2, allowed)
            cl += [('merge-pure:' + n_, f) for n_, f in fr]
            c.refute(s2, cl, call, lambda nme: ('C11',))
        work = [s1]
        rounds = 0
        while work:
            s2 = work.pop()
            rounds += 1
            if rounds > 40:
                raise Inconclusive("merge: too many case splits on symbolic edge targets")
            try:
                _judge(s2)
            except _Split as sp:
                for v in sp.vals:
                    s3 = s2.fork()
                    s3.assume(sp.term == v)
                    work.append(s3)
    env.cover('merge returned', n >= 1)
    if expect == 'ok' and len(hreach) > 1:
        env.cover('a path on which the merge created a vertex', any(x > 0 for x in n_new))
    env.sample({'op': 'merge', 'N': N, 'cap': cap, 'left graph edges': ge, 'left present': sorted(gp), 'left position': gpos, 'right graph edges': he, 'right present': sorted(hp),
                'right persistence': hpers, 'left': left, 'right': right, 'labels': lab, 'expect': expect, 'paths': n, 'new vertices per path': sorted(n_new)})
    env.account(w)


def _names_ok(text, missed):
    m = re.search(r'(\d+) missed: (.*)$', text, re.S)
    if not m:
        return False
    names = [x.strip() for x in m.group(2).split(',') if x.strip()]
    want = [L1('ν%d' % v) for v in missed]
    return int(m.group(1)) == len(missed) and names == want


def _report(c, model, failing, call, prop, detail=None):
    if model is None:
        return
    cc = c.concrete_call(call, model)
    job = {'n': c.N, 'cap': c.cap, 'pre': c.y.concrete(model), 'calls': [cc]}
    c.env.violation(kind='clause', clauses=failing, props=[prop], call=cc, job=job, detail=detail)


def _terminal(c, o, call, prop):
    model = c.vm.get_model(o.st)
    if model is None:
        return
    cc = c.concrete_call(call, model)
    job = {'n': c.N, 'cap': c.cap, 'pre': c.y.concrete(model), 'calls': [cc]}
    c.env.violation(kind=o.kind, clauses=['merge:returns'], props=[prop, 'C07'], call=cc, job=job, detail=o.detail)


# ------------------------------------------------------------------ native judgement

def _k(l):
    return tuple(sorted((k, tuple(v) if isinstance(v, list) else v) for k, v in l.items()))


def judge_merge(job, lines, crashed, stderr=''):
    from . import refmodel
    c0 = job['calls'][0]
    out = []
    if len(lines) < 2:
        m = [l for l in stderr.splitlines() if 'panicked' in l]
        return ["merge did not return: %s" % ((m[-1] if m else stderr[-200:]).strip())], {}
    g0 = lines[0]['snap']; g1 = lines[1]['snap']; ret = lines[1]['ret']
    h0 = c0['right_graph']
    hv = h0['vertices']
    hpres = [i for i, x in enumerate(hv) if x is not None and x['branch'] != 0]
    hedges = lambda r: hv[r]['edges']
    right, left = c0['right'], c0['left']
    R, todo = [], [right]
    while todo:
        x = todo.pop(0)
        if x in R:
            continue
        R.append(x)
        todo += [t for l, t in hedges(x)]
    missed = sorted(set(hpres) - set(R))
    if _norm_h(ret.get('right_graph_after')) != _norm_h(h0):
        out.append("the right graph changed")
    if missed:
        if ret.get('ok'):
            out.append("merge returned Ok although the vertices %r of the right graph were not reached from %d" % (missed, right))
        elif not _names_ok(L1(ret.get('error', '')), missed):
            out.append("the error does not name exactly the missed vertices %r: %r" % (missed, ret.get('error')))
        return out, {}
    if not ret.get('ok'):
        return out + ["merge of two trees returned an error: %s" % ret.get('error')], {}
    v0, v1 = g0['vertices'], g1['vertices']
    pres0 = {i for i, x in enumerate(v0) if x is not None and x['branch'] != 0}
    pres1 = {i for i, x in enumerate(v1) if x is not None and x['branch'] != 0}
    M = {right: left}
    new = []
    for r in R:
        u = M[r]
        for l, r2 in hedges(r):
            hit = [t for l2, t in v1[u]['edges'] if _k(l2) == _k(l)]
            if len(hit) != 1:
                return out + ["the path (%d, %r, %d) of the right graph has no counterpart from vertex %d of the left graph" % (r, l, r2, u)], {}
            M[r2] = hit[0]
            was = u in pres0 and any(_k(l2) == _k(l) and t == hit[0] for l2, t in v0[u]['edges'])
            if not was:
                new.append(hit[0])
                if hit[0] in pres0:
                    out.append("the new path (%d, %r) ends in vertex %d, which was present before" % (r, l, hit[0]))
    if len(set(M.values())) != len(M) or len(set(new)) != len(new):
        out.append("distinct vertices of the right graph land on one vertex: %r" % M)
    for r in R:
        if hv[r]['persistence'] != 0 and (v1[M[r]]['persistence'] == 0 or list(v1[M[r]]['data']) != list(hv[r]['data'])):
            out.append("vertex %d of the right graph holds %r, its image %d holds %s" % (r, hv[r]['data'], M[r], repr(v1[M[r]]['data']) if v1[M[r]]['persistence'] else 'no data'))
    if not pres0 <= pres1:
        out.append("vertices %r of the left graph are gone" % sorted(pres0 - pres1))
    if pres1 - pres0 != set(new):
        out.append("created vertices %r, the right graph demands %r" % (sorted(pres1 - pres0), sorted(new)))
    dd = {M[r] for r in R if hv[r]['persistence'] != 0}
    for u in sorted(pres0 & pres1):
        e1 = [(_k(l), t) for l, t in v1[u]['edges']]
        for l, t in v0[u]['edges']:
            if (_k(l), t) not in e1:
                out.append("edge %r -> %d of vertex %d is gone" % (l, t, u))
        if u not in dd and (v1[u]['persistence'] != v0[u]['persistence'] or (v0[u]['persistence'] != 0 and list(v1[u]['data']) != list(v0[u]['data']))):
            out.append("the datum of vertex %d changed although the right graph has none for it" % u)
    for u in sorted(pres1):
        dem = {(_k(l), M[r2]) for r in R if M[r] == u for l, r2 in hedges(r)}
        old = {(_k(l), t) for l, t in v0[u]['edges']} if u in pres0 else set()
        for l, t in v1[u]['edges']:
            if (_k(l), t) not in dem | old:
                out.append("vertex %d has the edge %r -> %d that neither graph demands" % (u, l, t))
    bad = refmodel.check_inv(g1)
    if bad:
        out.append("the left graph breaks the representation invariant after the merge: %s" % (bad[:3],))
    return out, {}


def _norm_h(sn):
    if sn is None:
        return None
    vs = []
    for x in sn['vertices']:
        if x is None or x['branch'] == 0:
            vs.append(None)
        else:
            vs.append((x['branch'], x['persistence'], tuple(x['data']) if x['persistence'] else (), tuple((_k(l), t) for l, t in x['edges'])))
    return vs


# ------------------------------------------------------------------ tasks

def trees(n_max, ids, deg):
    """rooted trees on a subset of `ids` (root first) with out-degree <= deg, as (edges-per-vertex dict, root, vertices)"""
    import itertools
    out = []
    for n in range(1, n_max + 1):
        for vs in itertools.permutations(ids, n):
            root = vs[0]
            rest = vs[1:]
            if list(rest) != sorted(rest):
                continue        # the order of the non-root ids only matters through the parent function
            for parents in itertools.product(range(n), repeat=n - 1):
                # vertex k+1 hangs under vs[parents[k]] which must come earlier in vs
                if any(p > k for k, p in enumerate(parents)):
                    continue
                e = {v: [] for v in vs}
                for k, p in enumerate(parents):
                    e[vs[p]].append(vs[k + 1])
                if any(len(x) > deg for x in e.values()):
                    continue
                out.append((e, root, list(vs)))
    return out


def tasks(tier, which):
    from .harness import Task
    import random
    rnd = random.Random(11)
    ts = []
    N, cap = 4, 5

    def edges_list(e):
        return [e.get(i, []) for i in range(cap)]

    def add(ge, gp, gpos, he, hp, hpers, left, right, lab, expect, gpers=None, seed=0x42, wt=10):
        kk = len(ts)
        gpers = [(kk + 2 * i) % 3 for i in range(cap)] if gpers is None else gpers
        gsel = [(kk + i) % 3 for i in range(cap)]
        hsel = [(kk // 3 + i) % 3 for i in range(cap)]
        nm = "merge N=%d cap=%d g=%s@%s pos=%d gdata=%s/%s h=%s@%s hdata=%s/%s left=%d right=%d labels=%s expect=%s" % (
            N, cap, ge, gp, gpos, gpers, gsel, he, hp, hpers, hsel, left, right, lab, expect)
        ts.append(Task(nm, 'seir.pmerge:ob_merge', N=N, cap=cap, ge=ge, gp=gp, gpos=gpos, he=he, hp=hp, hpers=hpers, left=left, right=right, lab=lab,
                       gpers=gpers, gsel=gsel, hsel=hsel, expect=expect, hash_seed=seed, _weight=wt))
    labs = ('alpha', 'greek', 'str', 'any')
    gtrees = trees(3, range(cap), 2)
    htrees = trees(3, range(cap), 2)
    k = 0
    if which == 'C11':
        combos = []
        for (g_e, g_root, g_vs) in gtrees:
            for (h_e, h_root, h_vs) in htrees:
                absent = [i for i in range(cap) if i not in g_vs]
                if len(absent) < len(h_vs) - 1:
                    continue
                combos.append((g_e, g_root, g_vs, h_e, h_root, h_vs))
        rnd.shuffle(combos)
        sel = combos[:110] if tier == 'quick' else combos[:700]
        for (g_e, g_root, g_vs, h_e, h_root, h_vs) in sel:
            absent = [i for i in range(cap) if i not in g_vs]
            # the allocator position: any value that leaves enough absent ids at or above it
            need = len(h_vs) - 1
            poss = [p for p in range(cap + 1) if len([a for a in absent if a >= p]) >= need]
            gpos = poss[k % len(poss)]
            left = g_vs[k % len(g_vs)]
            hpers = [0] * cap
            for i in h_vs:
                hpers[i] = (k + i) % 3          # Empty / Stored / Taken
            lab = labs[k % 4]
            if lab == 'any' and len(g_vs) + len(h_vs) > 4 and tier == 'quick':
                lab = labs[k % 3]         # a symbolic label kind triples every comparison: small shapes only in the quick tier
            add(edges_list(g_e), sorted(g_vs), gpos, edges_list(h_e), sorted(h_vs), hpers, left, h_root, lab, 'ok', wt=5 * (len(g_vs) + len(h_vs)) * (4 if lab == 'any' else 1))
            k += 1
    else:
        combos = []
        for (g_e, g_root, g_vs) in gtrees:
            for (h_e, h_root, h_vs) in htrees:
                absent = [i for i in range(cap) if i not in g_vs]
                if len(absent) < len(h_vs) - 1:
                    continue
                for (x_e, x_root, x_vs) in trees(2, [i for i in range(cap) if i not in h_vs], 2):
                    combos.append((g_e, g_root, g_vs, h_e, h_root, h_vs, x_e, x_vs))
        rnd.shuffle(combos)
        sel = combos[:80] if tier == 'quick' else combos[:500]
        for (g_e, g_root, g_vs, h_e, h_root, h_vs, x_e, x_vs) in sel:
            absent = [i for i in range(cap) if i not in g_vs]
            need = len(h_vs) - 1
            poss = [p for p in range(cap + 1) if len([a for a in absent if a >= p]) >= need]
            gpos = poss[k % len(poss)]
            left = g_vs[k % len(g_vs)]
            he = dict(h_e); he.update(x_e)
            hp = sorted(h_vs + x_vs)
            hpers = [0] * cap
            for i in hp:
                hpers[i] = (k + i) % 3
            lab = labs[k % 4]
            if lab == 'any' and len(g_vs) + len(h_vs) > 4 and tier == 'quick':
                lab = labs[k % 3]
            add(edges_list(g_e), sorted(g_vs), gpos, edges_list(he), hp, hpers, left, h_root, lab, 'err', wt=5 * (len(g_vs) + len(hp)) * (4 if lab == 'any' else 1))
            k += 1
    return ts
