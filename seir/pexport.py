"""C18: to_xml() and to_dot() executed on the build-std IR (xml-builder, itertools' sort, core::fmt,
alloc::string) over a graph whose *structure* is fixed per task (which ids are present, which hold
data of which length and representation, how many edges) and whose payload is symbolic (label
characters / indices, edge targets, data bytes).  The produced text -- a concrete skeleton with symbolic
bytes at known positions -- is tokenised and compared with the abstract state."""
import re

import z3

from . import graph as G
from .graph import NSLOT, U, STORED, TAKEN, EMPTY
from .pgraph import Ctx
from .ptext import TW
from .vm import to_bv, cells_to_val, cell_term, Inconclusive

PH = '\x01'           # placeholder for a symbolic byte in the skeleton
NU = '\u03bd'.encode('utf-8').decode('latin-1')      # texts are handled as latin-1 strings: one character per byte


# vertex shapes: (tag, persistence, data selector, inline length, edge count factor)
#   data selector: 0 inline (length given), 1 heap of 9 bytes, 2 heap of 10 bytes
SHAPES = {
    'absent-clean': dict(tag=0, pers=0, dsel=0, ilen=0, edges=0),
    'absent-stale': dict(tag=0, pers=2, dsel=0, ilen=3, edges=1),       # a collected vertex: stale datum and edge
    'plain': dict(tag=1, pers=0, dsel=0, ilen=0, edges=0),
    'edges': dict(tag=1, pers=0, dsel=0, ilen=0, edges='N'),
    'empty-datum': dict(tag=1, pers=1, dsel=0, ilen=0, edges=0),
    'inline3-read': dict(tag=1, pers=2, dsel=0, ilen=3, edges=1),
    'inline8': dict(tag=1, pers=1, dsel=0, ilen=8, edges='N'),
    'heap9': dict(tag=1, pers=1, dsel=1, ilen=0, edges=1),
    'stale-under-empty': dict(tag=1, pers=0, dsel=0, ilen=5, edges=0),   # persistence Empty with left-over bytes
}
LABS = ('alpha', 'greek1', 'greek2', 'greek3', 'greek4', 'str1')
XML_SPECIAL = (0x22, 0x26, 0x27, 0x3C, 0x3E)


def _setup(env, N, cap, shapes, lab):
    fx = {}
    for i, sh in enumerate(shapes):
        d = SHAPES[sh]
        fx['tag%d' % i] = d['tag']
        fx['pers%d' % i] = d['pers']
        fx['ne%d' % i] = N if d['edges'] == 'N' else min(N, d['edges'])
    for b in range(2, NSLOT):
        fx['cnt%d' % b] = 0
        fx['ctr%d' % b] = 0
    c = Ctx(env, N, cap, fixed=fx)
    w, vm, y = c.w, c.vm, c.y
    vm.opts['max_cands'] = 300
    vm.opts['merge_calls'] = tuple(vm.opts.get('merge_calls') or ()) + ('8UpperHex3fmt',)
    st = c.pre.fork()
    tb = max(1, (cap - 1).bit_length())
    for i, sh in enumerate(shapes):
        d = SHAPES[sh]
        st.assume(y.data[i].sel == d['dsel'])
        if d['dsel'] == 0:
            st.assume(y.data[i].ilen == d['ilen'])
        for j in range(N):
            L = y.ekey[i][j]
            st.assume(z3.ULT(y.etgt[i][j], cap))            # a target was a present id below the capacity when it was bound
            if lab == 'alpha':
                st.assume(L.kind == G.ALPHA)
                st.assume(z3.ULT(L.n, 1 << 10))
            elif lab.startswith('greek'):
                k = int(lab[5])
                lo, hi = {1: (0x21, 0x7F), 2: (0x80, 0x7FF), 3: (0x800, 0xFFFF), 4: (0x10000, 0x10FFFF)}[k]
                st.assume(L.kind == G.GREEK)
                st.assume(z3.And(z3.UGE(L.c, lo), z3.ULE(L.c, hi)))
                st.assume(z3.And(*[L.c != x for x in XML_SPECIAL]))
                st.assume(L.c != 0x3B1)
            else:
                st.assume(L.kind == G.STR)
                # exactly three ASCII characters, none that needs escaping (a symbolic length forks per character
                # in Display and in the sort: > 4000 paths for two labels)
                for q, ch in enumerate(L.chars):
                    if q < 3:
                        st.assume(z3.And(z3.UGE(ch, 0x21), z3.ULT(ch, 0x7F)))
                        st.assume(z3.And(*[ch != x for x in XML_SPECIAL]))
                    else:
                        st.assume(ch == 0x20)
    c.pre = st
    return c, st


def _label_text(L, lab):
    """expected printed bytes of a label, as alternatives [(condition, [byte terms])]"""
    if lab == 'alpha':
        n = L.n
        alts = []
        for D in range(1, 5):
            lo = 0 if D == 1 else 10 ** (D - 1)
            cond = z3.And(z3.UGE(n, lo), z3.ULT(n, 10 ** D))
            digs = [z3.Extract(7, 0, z3.URem(z3.UDiv(n, U(10 ** (D - 1 - j))), U(10))) + 0x30 for j in range(D)]
            alts.append((cond, [0xCE, 0xB1] + digs))
        return alts
    if lab.startswith('greek'):
        k = int(lab[5])
        c = L.c
        e = lambda hi, lo: z3.Extract(7, 0, z3.LShR(c, lo) & ((1 << (hi - lo + 1)) - 1))
        if k == 1:
            bs = [z3.Extract(7, 0, c)]
        elif k == 2:
            bs = [e(10, 6) | 0xC0, e(5, 0) | 0x80]
        elif k == 3:
            bs = [e(15, 12) | 0xE0, e(11, 6) | 0x80, e(5, 0) | 0x80]
        else:
            bs = [e(20, 18) | 0xF0, e(17, 12) | 0x80, e(11, 6) | 0x80, e(5, 0) | 0x80]
        return [(z3.BoolVal(True), bs)]
    return [(z3.BoolVal(True), [z3.Extract(7, 0, L.chars[q]) for q in range(3)])]


def _data_bytes(c, i, shape):
    d = SHAPES[shape]
    y = c.y
    if d['dsel'] == 0:
        return [y.data[i].ib[k] for k in range(d['ilen'])]
    L = y.data[i].heap_lens[d['dsel'] - 1]
    return list(y.data[i].hb[L])


def _hexdig(nib):
    return z3.If(z3.ULT(nib, 10), nib + 0x30, nib + 0x37)


def _hex_text(bs, sep):
    if not bs:
        return [sep, sep]
    out = []
    for k, b in enumerate(bs):
        if k:
            out.append(sep)
        out.append(_hexdig(z3.LShR(b, 4)))
        out.append(_hexdig(b & 0x0F))
    return out


def _skeleton(cells):
    return ''.join(chr(x) if type(x) is int else PH for x in cells)


def _piece_eq(cells, a, b, want):
    """the text cells[a:b] equals the byte list `want` (ints / 8-bit terms)"""
    if b - a != len(want):
        return z3.BoolVal(False)
    cs = []
    for x, wv in zip(cells[a:b], want):
        if x is None:
            return z3.BoolVal(False)
        if type(x) is int and isinstance(wv, int):
            if x != wv:
                return z3.BoolVal(False)
            continue
        cs.append(cell_term(x) == (wv if not isinstance(wv, int) else z3.BitVecVal(wv, 8)))
    return z3.And(*cs) if cs else z3.BoolVal(True)


def _text_eq(cells, a, b, alts):
    return z3.Or(*[z3.And(cond, _piece_eq(cells, a, b, want)) for cond, want in alts])


def parse_xml(sk):
    """[(id span, [(a span, to span)], data span or None)] from the skeleton; None if it is not the expected shape"""
    vs = []
    pos = 0
    m = re.match(r'<\?xml[^>]*\?>\s*<sodg\s*(/>|>)', sk)
    if not m:
        return None
    pos = m.end()
    cur = None
    for t in re.finditer(r'<(/?)(\w+)((?:\s+\w+="[^"]*")*)\s*(/?)>([^<]*)', sk[pos:]):
        close, name, attrs, selfc, text = t.group(1), t.group(2), t.group(3), t.group(4), t.group(5)
        base = pos + t.start()
        at = {}
        for a in re.finditer(r'(\w+)="([^"]*)"', attrs):
            at[a.group(1)] = (base + t.start(3) - t.start() + a.start(2), base + t.start(3) - t.start() + a.end(2))
        if name == 'v' and not close:
            cur = [at.get('id'), [], None]
            vs.append(cur)
            if selfc:
                cur = None
        elif name == 'v' and close:
            cur = None
        elif name == 'e' and not close and cur is not None:
            cur[1].append((at.get('a'), at.get('to')))
        elif name == 'data' and not close and cur is not None:
            cur[2] = (base + t.start(5) - t.start(), base + t.end(5) - t.start())
        elif name == 'sodg' and close:
            break
    return vs


def parse_dot(sk):
    nodes = []
    edges = []
    for ln in re.finditer(r'[^\n]*\n?', sk):
        line = ln.group(0)
        off = ln.start()
        m = re.match(r'\s*v(\d+)\[shape=circle,label="' + NU + r'(\d+)"(,color="#f96900")?\];[ ]?(?:/\* ([^\n]*?) \*/)?\s*$', line)
        if m:
            nodes.append((int(m.group(1)), int(m.group(2)), bool(m.group(3)), (off + m.start(4), off + m.end(4)) if m.group(4) is not None else None))
            continue
        m = re.match(r'\s*v(\d+) -> v(\d+) \[label="([^"\n]*)"[^\]\n]*\];\s*$', line)
        if m:
            edges.append((int(m.group(1)), (off + m.start(2), off + m.end(2)), (off + m.start(3), off + m.end(3))))
    return nodes, edges


def _check_vertex_edges(c, cells, i, found, lab, N, ne):
    """found: [(a span, to span)] printed for vertex i; expected: its first `ne` pairs, in any order"""
    y = c.y
    if len(found) != ne:
        return z3.BoolVal(False)
    if ne == 0:
        return z3.BoolVal(True)
    exp = [(_label_text(y.ekey[i][j], lab), [z3.Extract(7, 0, y.etgt[i][j]) + 0x30]) for j in range(ne)]

    def match(f, e):
        (a0, a1), (t0, t1) = f
        return z3.And(_text_eq(cells, a0, a1, e[0]), _piece_eq(cells, t0, t1, e[1]))
    import itertools
    alts = []
    for perm in itertools.permutations(range(ne)):
        alts.append(z3.And(*[match(found[k], exp[perm[k]]) for k in range(ne)]))
    return z3.Or(*alts)


def _utf8_skeleton(cells):
    """skeleton as a str decoded from UTF-8 where possible (DOT contains the letter nu), with a map from
    character positions back to cell positions"""
    raw = bytearray()
    for x in cells:
        raw.append(x if type(x) is int else 1)
    # decode manually, keeping positions
    out = []
    posmap = []
    i = 0
    n = len(raw)
    while i < n:
        b = raw[i]
        k = 1 if b < 0x80 else 2 if 0xC0 <= b < 0xE0 else 3 if 0xE0 <= b < 0xF0 else 4 if 0xF0 <= b < 0xF8 else 1
        try:
            ch = bytes(raw[i:i + k]).decode('utf-8')
        except UnicodeDecodeError:
            ch = '�'; k = 1
        out.append(ch)
        posmap.append(i)
        i += k
    posmap.append(n)
    return ''.join(out), posmap


def ob_export(env, N, cap, shapes, lab, which):
    c, st = _setup(env, N, cap, shapes, lab)
    w, y, vm = c.w, c.y, c.vm
    tw_string = TW.string_of
    out = w.scratch(st, 24, 'out.string')
    call = {'op': 'to_' + which}
    present = [i for i, sh in enumerate(shapes) if SHAPES[sh]['tag'] != 0]
    n = 0
    if which == 'xml':
        outs = vm.run(st, w.pfx + 'to_xml', [w.g, out])
    else:
        outs = vm.run(st, w.pfx + 'to_dot', [w.g, out])
    for o in outs:
        n += 1
        if o.kind != 'ret':
            c.terminal_violation(o, call, ('C18',), 'returns')
            continue
        s1 = o.st
        if which == 'xml':
            ok = o.value
            okb = ok if isinstance(ok, z3.BoolRef) else ((to_bv(ok, 8) & 1) == 1)
            if vm.feasible(s1, z3.Not(okb)):
                c.report(vm.get_model(s1, z3.Not(okb)), ['export:ok'], call, lambda nme: ('C18',))
                continue
        pp = s1.mem.alloc(8, 8, 'heap', name='scratch.pp').base
        oo = vm.run(s1, '@string_view', [out, pp])
        if len(oo) != 1 or oo[0].kind != 'ret':
            raise Inconclusive("string_view: %r" % (oo,))
        s2 = oo[0].st
        ptr = cells_to_val(s2.mem.read_cells(pp, 8))
        ln = oo[0].value
        if not isinstance(ln, int):
            ln = vm.concretize(s2, ln)
        cells = vm.load_bytes(s2, ptr, ln) if ln else []
        cl = []
        # the text under one model of the path; everything outside the payload spans found by the tokeniser must
        # then be the same for every model of the path (one solver query), so the spans are those of every model
        mdl = vm.get_model(s2)
        if mdl is None:
            continue
        conc = [x if type(x) is int else (0 if x is None else mdl.eval(cell_term(x), model_completion=True).as_long()) for x in cells]
        sk = bytes(conc).decode('latin-1')
        payload = set()

        def span(sp):
            if sp:
                payload.update(range(sp[0], sp[1]))
            return sp
        if which == 'xml':
            vs = parse_xml(sk)
            for (idspan, es, dspan) in (vs or []):
                for a_, t_ in es:
                    span(a_); span(t_)
                span(dspan)
            if vs is None:
                cl.append(('export:well-formed', z3.BoolVal(False)))
            else:
                ids = []
                for (idspan, es, dspan) in vs:
                    txt = sk[idspan[0]:idspan[1]] if idspan else ''
                    ids.append(int(txt) if txt.isdigit() else -1)
                cl.append(('export:nodes', z3.BoolVal(ids == present)))
                for (idspan, es, dspan), vid in zip(vs, ids):
                    if vid not in present:
                        continue
                    sh = SHAPES[shapes[vid]]
                    ne = N if sh['edges'] == 'N' else min(N, sh['edges'])
                    cl.append(('export:edges%d' % vid, _check_vertex_edges(c, cells, vid, es, lab, N, ne)))
                    if sh['pers'] == EMPTY:
                        cl.append(('export:data%d' % vid, z3.BoolVal(dspan is None)))
                    else:
                        want = _hex_text(_data_bytes(c, vid, shapes[vid]), 0x20)
                        cl.append(('export:data%d' % vid, z3.BoolVal(False) if dspan is None else _piece_eq(cells, dspan[0], dspan[1], want)))
        else:
            nodes, edges = parse_dot(sk)
            pm = list(range(len(sk) + 1))
            for (vid, lbl, colored, dspan) in nodes:
                span(dspan)
            for (src, ts, ls) in edges:
                span(ts); span(ls)
            cl.append(('export:nodes', z3.BoolVal([a for a, b, cflag, d in nodes] == present and all(a == b for a, b, cflag, d in nodes))))
            for (vid, lbl, colored, dspan) in nodes:
                if vid not in present:
                    continue
                sh = SHAPES[shapes[vid]]
                ne = N if sh['edges'] == 'N' else min(N, sh['edges'])
                mine = [((pm[ls[0]], pm[ls[1]]), (pm[ts[0]], pm[ts[1]])) for (src, ts, ls) in edges if src == vid]
                cl.append(('export:edges%d' % vid, _check_vertex_edges(c, cells, vid, mine, lab, N, ne)))
                if sh['pers'] == EMPTY:
                    cl.append(('export:data%d' % vid, z3.BoolVal(dspan is None and not colored)))
                else:
                    want = _hex_text(_data_bytes(c, vid, shapes[vid]), 0x2D)
                    cl.append(('export:data%d' % vid, z3.BoolVal(False) if dspan is None else _piece_eq(cells, pm[dspan[0]], pm[dspan[1]], want)))
            cl.append(('export:no-foreign-edges', z3.BoolVal(all(src in present for (src, ts, ls) in edges))))
        fixed = [cell_term(x) == conc[q] for q, x in enumerate(cells) if q not in payload and type(x) is not int and x is not None]
        cl.append(('export:skeleton', z3.And(*fixed) if fixed else z3.BoolVal(True)))
        fr, nd = c.frame(s2, lambda key: False)
        cl += [('export-pure:' + n_, f) for n_, f in fr]
        c.refute(s2, cl, call, lambda nme: ('C18',))
    env.cover('exported', n >= 1)
    env.sample({'op': 'to_' + which, 'N': N, 'cap': cap, 'vertex shapes': list(shapes), 'labels': lab, 'paths': n})
    env.account(w)


# ====================================================================== native judgement
def _label_str(l):
    if 'g' in l:
        return chr(l['g'])
    if 'a' in l:
        return '\u03b1%d' % l['a']
    return ''.join(chr(x) for x in l['s'] if x != 0x20)


def judge_export(job, lines, crashed, stderr=''):
    out = []
    if len(lines) < 2:
        m = [l for l in stderr.splitlines() if 'panicked' in l]
        return ["the exporter did not return: %s" % ((m[-1] if m else stderr[-200:]).strip())], {}
    snap = lines[0]['snap']
    op = job['calls'][0]['op']
    text = lines[1]['ret']['text'].encode('utf-8').decode('latin-1')
    L1 = lambda t: t.encode('utf-8').decode('latin-1')
    vs = snap['vertices']
    present = [i for i, x in enumerate(vs) if x is not None and x['branch'] != 0]
    if op == 'to_xml':
        parsed = parse_xml(text)
        if parsed is None:
            return ["to_xml(): not the expected document shape"], {}
        ids = [int(text[s[0]:s[1]]) if s and text[s[0]:s[1]].isdigit() else -1 for s, es, d in parsed]
        if ids != present:
            out.append("to_xml() lists the vertices %r, the present vertices are %r" % (ids, present))
        for (s, es, d), vid in zip(parsed, ids):
            if vid not in present:
                continue
            got = sorted((text[a[0]:a[1]], text[t[0]:t[1]]) for a, t in es)
            want = sorted((L1(_label_str(l)), str(to)) for l, to in vs[vid]['edges'])
            if got != want:
                out.append("to_xml(): vertex %d has the edges %r, printed %r" % (vid, want, got))
            if vs[vid]['persistence'] == 0:
                if d is not None:
                    out.append("to_xml(): vertex %d has no data but a <data> node is printed" % vid)
            else:
                wt = ' '.join('%02X' % b for b in vs[vid]['data']) if vs[vid]['data'] else '  '
                if d is None or text[d[0]:d[1]] != wt:
                    out.append("to_xml(): vertex %d holds %r, printed %r" % (vid, wt, None if d is None else text[d[0]:d[1]]))
    else:
        nodes, edges = parse_dot(text)
        ids = [a for a, b, c, d in nodes]
        if ids != present:
            out.append("to_dot() lists the vertices %r, the present vertices are %r" % (ids, present))
        for (vid, lbl, colored, d) in nodes:
            if vid not in present:
                continue
            got = sorted((text[ls[0]:ls[1]], text[ts[0]:ts[1]]) for (src, ts, ls) in edges if src == vid)
            want = sorted((L1(_label_str(l)), str(to)) for l, to in vs[vid]['edges'])
            if got != want:
                out.append("to_dot(): vertex %d has the edges %r, printed %r" % (vid, want, got))
            if vs[vid]['persistence'] == 0:
                if d is not None or colored:
                    out.append("to_dot(): vertex %d has no data but is printed with data" % vid)
            else:
                wt = '-'.join('%02X' % b for b in vs[vid]['data']) if vs[vid]['data'] else '--'
                if d is None or text[d[0]:d[1]] != wt:
                    out.append("to_dot(): vertex %d holds %r, printed %r" % (vid, wt, None if d is None else text[d[0]:d[1]]))
    return out, {}


# ====================================================================== C20: inspect / Debug / v_print
L1 = lambda t: t.encode('utf-8').decode('latin-1')
ARROW, ELL, LB, RB, DELTA = L1('➞'), L1('…'), L1('⟦'), L1('⟧'), L1('Δ')
# characters that delimit the three text forms: a label must not contain them (or the text would be ambiguous)
DELIMS = (0x20, 0x2C, 0x2E, 0x0A, 0x09, 0x3BD, 0x279E, 0x2026, 0x27E6, 0x27E7, 0x394)

STRUCTS = {
    'chain': [[1], [2], []],
    'cycle-shared': [[1, 2], [2], [0]],
    'two-cycle': [[1], [0], []],
    'fan-in': [[], [0, 2], [1]],
    'double-edge': [[1, 1], [], [0]],
    'no-edges': [[], [], []],
}


def _setup20(env, N, cap, struct, shapes, lab, alpha_max=1 << 10):
    edges = STRUCTS[struct]
    fx = {}
    for i, sh in enumerate(shapes):
        d = SHAPES[sh]
        fx['tag%d' % i] = d['tag']
        fx['pers%d' % i] = d['pers']
        fx['ne%d' % i] = len(edges[i])
        for j, t in enumerate(edges[i]):
            fx['t%d_%d' % (i, j)] = t
    for b in range(2, NSLOT):
        fx['cnt%d' % b] = 0
        fx['ctr%d' % b] = 0
    c = Ctx(env, N, cap, fixed=fx)
    w, vm, y = c.w, c.vm, c.y
    vm.opts['max_cands'] = 300
    vm.opts['merge_calls'] = tuple(vm.opts.get('merge_calls') or ()) + ('8UpperHex3fmt',)
    st = c.pre.fork()
    for i, sh in enumerate(shapes):
        d = SHAPES[sh]
        st.assume(y.data[i].sel == d['dsel'])
        if d['dsel'] == 0:
            st.assume(y.data[i].ilen == d['ilen'])
        for j in range(N):
            L = y.ekey[i][j]
            if lab == 'alpha':
                st.assume(L.kind == G.ALPHA)
                st.assume(z3.ULT(L.n, alpha_max))
            elif lab.startswith('greek'):
                k = int(lab[5])
                lo, hi = {1: (0x21, 0x7F), 2: (0x80, 0x7FF), 3: (0x800, 0xFFFF), 4: (0x10000, 0x10FFFF)}[k]
                st.assume(L.kind == G.GREEK)
                st.assume(z3.And(z3.UGE(L.c, lo), z3.ULE(L.c, hi)))
                st.assume(z3.And(*[L.c != x for x in DELIMS + (0x3B1,)]))
            else:
                st.assume(L.kind == G.STR)
                for q, ch in enumerate(L.chars):
                    if q < 3:
                        st.assume(z3.And(z3.UGE(ch, 0x30), z3.ULT(ch, 0x7B)))
                    else:
                        st.assume(ch == 0x20)
    c.pre = st
    return c, st, edges


def _txt(cells, st, vm):
    mdl = vm.get_model(st)
    if mdl is None:
        return None, None
    conc = [x if type(x) is int else (0 if x is None else mdl.eval(cell_term(x), model_completion=True).as_long()) for x in cells]
    return conc, bytes(conc).decode('latin-1')


def _same_label(c, a, b, lab):
    y = c.y
    la = y.ekey[a[0]][a[1]]; lb = y.ekey[b[0]][b[1]]
    return la.eq(lb)


def _multiset_eq(c, cells, found, exp, lab):
    """found: [(label span, target int)] printed; exp: [((vertex, pair index), target)]: same multiset"""
    if len(found) != len(exp):
        return z3.BoolVal(False)
    y = c.y
    cs = []
    one = z3.BitVecVal(1, 8); zero = z3.BitVecVal(0, 8)
    for (vi, j), t in exp:
        hits = z3.BitVecVal(0, 8)
        for (sp, ft) in found:
            if ft != t:
                continue
            hits = hits + z3.If(_text_eq(cells, sp[0], sp[1], _label_text(y.ekey[vi][j], lab)), one, zero)
        same = z3.BitVecVal(0, 8)
        for (vk, jk), tk in exp:
            if tk != t:
                continue
            same = same + (one if (vk, jk) == (vi, j) else z3.If(_same_label(c, (vi, j), (vk, jk), lab), one, zero))
        cs.append(hits == same)
    return z3.And(*cs)


def ob_text20(env, N, cap, struct, shapes, lab, which, start=0, alpha_max=1 << 10):
    c, st, edges = _setup20(env, N, cap, struct, shapes, lab, alpha_max)
    w, y, vm = c.w, c.y, c.vm
    out = w.scratch(st, 24, 'out.string')
    call = {'op': which, 'v': start} if which != 'debug' else {'op': 'debug'}
    present = [i for i, sh in enumerate(shapes) if SHAPES[sh]['tag'] != 0]
    n = 0
    if which == 'inspect':
        outs = vm.run(st, w.pfx + 'inspect', [w.g, start, out])
    elif which == 'v_print':
        outs = vm.run(st, w.pfx + 'v_print', [w.g, start, out])
    else:
        outs = vm.run(st, w.pfx + 'debug', [w.g, out])
    for o in outs:
        n += 1
        if o.kind != 'ret':
            c.terminal_violation(o, call, ('C20',), 'returns')
            continue
        s1 = o.st
        if which != 'debug':
            ok = o.value
            okb = ok if isinstance(ok, z3.BoolRef) else ((to_bv(ok, 8) & 1) == 1)
            if vm.feasible(s1, z3.Not(okb)):
                c.report(vm.get_model(s1, z3.Not(okb)), ['text:ok'], call, lambda nme: ('C20',))
                continue
        pp = s1.mem.alloc(8, 8, 'heap', name='scratch.pp').base
        oo = vm.run(s1, '@string_view', [out, pp])
        if len(oo) != 1 or oo[0].kind != 'ret':
            raise Inconclusive("string_view: %r" % (oo,))
        s2 = oo[0].st
        ptr = cells_to_val(s2.mem.read_cells(pp, 8))
        ln = oo[0].value
        if not isinstance(ln, int):
            ln = vm.concretize(s2, ln)
        cells = vm.load_bytes(s2, ptr, ln) if ln else []
        conc, sk = _txt(cells, s2, vm)
        if sk is None:
            continue
        payload = set()
        cl = []
        if which == 'inspect':
            # reachable set and its edges
            reach = []
            todo = [start]
            while todo:
                v = todo.pop()
                if v in reach:
                    continue
                reach.append(v)
                todo += edges[v]
            exp = [((v, j), t) for v in reach for j, t in enumerate(edges[v])]
            found = []
            lines = sk.split('\n')
            pos = 0
            head_ok = bool(lines) and lines[0] == L1('ν%d' % start)
            if len(lines) >= 2 and lines[-1] == '':
                lines = lines[:-1]          # "nu<v>\n" + no edge lines: the text of a vertex without edges ends with the separator
            for li, line in enumerate(lines):
                if li > 0:
                    m = re.match(r'^( *)\.(.*) ' + ARROW + ' ' + NU + r'(\d+)(' + ELL + r')?$', line)
                    if not m:
                        head_ok = False
                    else:
                        sp = (pos + m.start(2), pos + m.end(2))
                        payload.update(range(*sp))
                        found.append((sp, int(m.group(3))))
                pos += len(line) + 1
            cl.append(('text:shape', z3.BoolVal(head_ok)))
            cl.append(('text:edges-exactly-once', _multiset_eq(c, cells, found, exp, lab)))
        elif which == 'v_print':
            m = re.match(r'^' + NU + r'(\d+)' + LB + '(' + DELTA + r', )?(.*)' + RB + '$', sk, re.S)
            if not m or int(m.group(1)) != start:
                cl.append(('text:shape', z3.BoolVal(False)))
            else:
                has = SHAPES[shapes[start]]['pers'] != EMPTY
                cl.append(('text:data-marker', z3.BoolVal(bool(m.group(2)) == has)))
                body = m.group(3)
                off = m.start(3)
                found = []
                if body:
                    p0 = 0
                    for part in body.split(', '):
                        sp = (off + p0, off + p0 + len(part))
                        payload.update(range(*sp))
                        found.append((sp, 0))
                        p0 += len(part) + 2
                exp = [((start, j), 0) for j in range(len(edges[start]))]
                cl.append(('text:labels', _multiset_eq(c, cells, found, exp, lab)))
        else:
            # Debug: "nu<v> -> [[...]]" per present vertex, then "b<k>: {...}" lines
            heads = list(re.finditer(NU + r'(\d+) -> ' + LB, sk))
            ids = [int(h.group(1)) for h in heads]
            cl.append(('text:vertices', z3.BoolVal(ids == present)))
            for hi, h in enumerate(heads):
                vid = int(h.group(1))
                end = sk.find(RB, h.end())
                body = sk[h.end():end]
                off = h.end()
                found = []
                rest = body
                roff = off
                for m in re.finditer(r'\n\t(.*?) ' + ARROW + ' ' + NU + r'(\d+)(, |$)', body):
                    sp = (off + m.start(1), off + m.end(1))
                    payload.update(range(*sp))
                    found.append((sp, int(m.group(2))))
                    rest = body[m.end():]
                    roff = off + m.end()
                if vid in present:
                    exp = [((vid, j), t) for j, t in enumerate(edges[vid])]
                    cl.append(('text:edges%d' % vid, _multiset_eq(c, cells, found, exp, lab)))
                    if SHAPES[shapes[vid]]['pers'] == EMPTY:
                        cl.append(('text:data%d' % vid, z3.BoolVal(rest == '')))
                    else:
                        payload.update(range(roff, roff + len(rest)))
                        want = _hex_text(_data_bytes(c, vid, shapes[vid]), 0x2D)
                        cl.append(('text:data%d' % vid, _piece_eq(cells, roff, roff + len(rest), want)))
        fixed = [cell_term(x) == conc[q] for q, x in enumerate(cells) if q not in payload and type(x) is not int and x is not None]
        cl.append(('text:skeleton', z3.And(*fixed) if fixed else z3.BoolVal(True)))
        fr, nd = c.frame(s2, lambda key: False)
        cl += [('text-pure:' + n_, f) for n_, f in fr]
        c.refute(s2, cl, call, lambda nme: ('C20',))
    env.cover('text produced', n >= 1)
    env.sample({'op': which, 'N': N, 'cap': cap, 'structure': struct, 'edges (targets per vertex)': edges, 'vertex shapes': list(shapes), 'labels': lab, 'start': start, 'paths': n})
    env.account(w)


def judge_text20(job, lines, crashed, stderr=''):
    out = []
    if len(lines) < 2:
        m = [l for l in stderr.splitlines() if 'panicked' in l]
        return ["the call did not return: %s" % ((m[-1] if m else stderr[-200:]).strip())], {}
    snap = lines[0]['snap']
    c0 = job['calls'][0]
    op = c0['op']
    ret = lines[1]['ret']
    if 'text' not in ret:
        return ["%s returned an error: %s" % (op, ret.get('error'))], {}
    text = L1(ret['text'])
    vs = snap['vertices']
    present = [i for i, x in enumerate(vs) if x is not None and x['branch'] != 0]
    edges_of = lambda v: sorted((L1(_label_str(l)), to) for l, to in vs[v]['edges'])
    if op == 'inspect':
        start = c0['v']
        reach, todo = [], [start]
        while todo:
            v = todo.pop()
            if v in reach or v >= len(vs):
                continue
            reach.append(v)
            todo += [to for l, to in vs[v]['edges']]
        want = sorted(e for v in reach for e in edges_of(v))
        ls = text.split('\n')
        if len(ls) >= 2 and ls[-1] == '':
            ls = ls[:-1]
        got = []
        ok = bool(ls) and ls[0] == L1('ν%d' % start)
        for line in ls[1:]:
            m = re.match(r'^( *)\.(.*) ' + ARROW + ' ' + NU + r'(\d+)(' + ELL + r')?$', line)
            if not m:
                ok = False
            else:
                got.append((m.group(2), int(m.group(3))))
        if not ok:
            out.append("inspect(%d): unexpected line form in %r" % (start, ret['text'][:200]))
        elif sorted(got) != want:
            out.append("inspect(%d) lists the edges %r, the vertices reachable from %d have %r" % (start, sorted(got), start, want))
    elif op == 'v_print':
        v = c0['v']
        m = re.match(r'^' + NU + r'(\d+)' + LB + '(' + DELTA + r', )?(.*)' + RB + '$', text, re.S)
        if not m or int(m.group(1)) != v:
            out.append("v_print(%d): unexpected form %r" % (v, ret['text'][:200]))
        else:
            if bool(m.group(2)) != (vs[v]['persistence'] != 0):
                out.append("v_print(%d): data marker %s although persistence is %d" % (v, 'shown' if m.group(2) else 'missing', vs[v]['persistence']))
            got = sorted(m.group(3).split(', ')) if m.group(3) else []
            want = sorted(a for a, to in edges_of(v))
            if got != want:
                out.append("v_print(%d) lists the labels %r, the vertex has %r" % (v, got, want))
    else:
        heads = list(re.finditer(NU + r'(\d+) -> ' + LB, text))
        ids = [int(h.group(1)) for h in heads]
        if ids != present:
            out.append("Debug lists the vertices %r, the present vertices are %r" % (ids, present))
        for h in heads:
            vid = int(h.group(1))
            if vid not in present:
                continue
            end = text.find(RB, h.end())
            body = text[h.end():end]
            got = []
            rest = body
            for m in re.finditer(r'\n\t(.*?) ' + ARROW + ' ' + NU + r'(\d+)(, |$)', body):
                got.append((m.group(1), int(m.group(2))))
                rest = body[m.end():]
            if sorted(got) != edges_of(vid):
                out.append("Debug: vertex %d has the edges %r, printed %r" % (vid, edges_of(vid), sorted(got)))
            wt = '' if vs[vid]['persistence'] == 0 else ('-'.join('%02X' % b for b in vs[vid]['data']) if vs[vid]['data'] else '--')
            if rest != wt:
                out.append("Debug: vertex %d: data text %r, expected %r" % (vid, rest, wt))
    return out, {}
