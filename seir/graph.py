"""Sodg-specific layer on top of the executor: layout discovery through the
`verif_probe` hook, a fully symbolic pre-state constrained by the representation
invariant Inv, and readers that abstract a (pre or post) memory state."""
import z3

from .vm import (VM, Terminal, Inconclusive, cells_to_val, val_to_cells, merge_cells, cell_term, cell_eq, to_bv,
                 simp, is_sym)

NSLOT = 16
GREEK, ALPHA, STR = 0, 1, 2
EMPTY, STORED, TAKEN = 0, 1, 2


def U(x, bits=64):
    return z3.BitVecVal(x, bits)


def valid_char(c):
    return z3.And(z3.ULE(c, 0x10FFFF), z3.Or(z3.ULT(c, 0xD800), z3.UGT(c, 0xDFFF)))


class SymLabel:
    """a label whose variant and payload are solver variables"""

    def __init__(s, name, const=None):
        """const: {'g': code point} | {'a': index} | {'s': [8 code points]} -- a label that is a constant (tasks that fix
        the labels so that code which hashes a label runs concretely)"""
        s.name = name
        s.kind = z3.ZeroExt(6, z3.BitVec(name + '.k', 2))
        s.c = z3.BitVec(name + '.c', 32)
        s.n = z3.BitVec(name + '.n', 64)
        s.chars = [z3.BitVec('%s.s%d' % (name, i), 32) for i in range(8)]
        if const is not None:
            s.kind = z3.BitVecVal(GREEK if 'g' in const else (ALPHA if 'a' in const else STR), 8)
            s.c = z3.BitVecVal(const.get('g', 0x78), 32)
            s.n = z3.BitVecVal(const.get('a', 0), 64)
            s.chars = [z3.BitVecVal(x, 32) for x in const.get('s', [0x20] * 8)]

    def wf(s):
        return z3.And(z3.ULE(s.kind, 2), valid_char(s.c), *[valid_char(c) for c in s.chars])

    def eq(s, o):
        return z3.And(s.kind == o.kind,
                      z3.Implies(s.kind == GREEK, s.c == o.c),
                      z3.Implies(s.kind == ALPHA, s.n == o.n),
                      z3.Implies(s.kind == STR, z3.And(*[a == b for a, b in zip(s.chars, o.chars)])))

    def vars(s):
        return [s.kind, s.c, s.n] + s.chars

    def concrete(s, model):
        k = model.eval(s.kind, model_completion=True).as_long()
        if k == GREEK:
            return {'g': model.eval(s.c, model_completion=True).as_long()}
        if k == ALPHA:
            return {'a': model.eval(s.n, model_completion=True).as_long()}
        return {'s': [model.eval(c, model_completion=True).as_long() for c in s.chars]}


class SymHex:
    """a datum whose representation (inline / heap), length and bytes are solver variables"""

    def __init__(s, name, heap_lens=(9, 10)):
        s.name = name
        s.heap_lens = tuple(heap_lens)
        s.sel = z3.ZeroExt(6, z3.BitVec(name + '.sel', 2))           # 0 inline, 1.. index into heap_lens
        s.ilen = z3.ZeroExt(60, z3.BitVec(name + '.il', 4))
        s.ib = [z3.BitVec('%s.i%d' % (name, i), 8) for i in range(8)]
        s.hb = {L: [z3.BitVec('%s.h%d_%d' % (name, L, i), 8) for i in range(L)] for L in s.heap_lens}

    def wf(s):
        return z3.And(z3.ULE(s.sel, len(s.heap_lens)), z3.ULE(s.ilen, 8))

    def length(s):
        r = s.ilen
        for k, L in enumerate(s.heap_lens):
            r = z3.If(s.sel == k + 1, U(L), r)
        return r

    def byte(s, i):
        r = s.ib[i] if i < 8 else U(0, 8)
        for k, L in enumerate(s.heap_lens):
            if i < L:
                r = z3.If(s.sel == k + 1, s.hb[L][i], r)
        return r

    def maxlen(s):
        return max((8,) + s.heap_lens)

    def concrete(s, model):
        ev = lambda t: model.eval(t, model_completion=True).as_long()
        sel = ev(s.sel)
        if sel == 0:
            n = ev(s.ilen)
            return {'inline': True, 'data': [ev(b) for b in s.ib[:n]], 'pad': [ev(b) for b in s.ib[n:]]}
        L = s.heap_lens[sel - 1]
        return {'inline': False, 'data': [ev(b) for b in s.hb[L]]}


class World:
    """module + VM + a graph of one configuration, concrete (after empty(cap))
    and symbolic (every field a solver variable)"""

    def __init__(s, mod, N, cap, heap_lens=(9, 10), opts=None):
        s.mod = mod
        s.N = N
        s.cap = cap
        s.pfx = '@s%d_' % N
        s.heap_lens = tuple(heap_lens)
        o2 = dict(merge_calls=('insert_ii', 'Hex$u20$as$u20$core..clone..Clone', 'drop_in_place$LT$sodg..Hex', 'sodg..Vertex$LT$_$GT$$u20$as$u20$core..clone..Clone', 'micromap..Map$LT$K$C$V$C$_$GT$$u20$as$u20$core..clone..Clone'))
        o2.update(opts or {})
        s.vm = VM(mod, o2)
        s.mcap = min(cap, NSLOT)      # members that can matter under Inv (distinct ids < cap)
        s._discover()

    # ------------------------------------------------------------ plumbing
    def call1(s, st, fn, *args, allow=('ret',)):
        outs = s.vm.run(st, fn if fn[0] == '@' else '@' + fn, list(args))
        if len(outs) != 1:
            raise Inconclusive("%s: expected one path, got %r" % (fn, outs))
        o = outs[0]
        if o.kind not in allow:
            raise Inconclusive("%s: unexpected outcome %r" % (fn, o))
        return o

    def scratch(s, st, n, name='scratch', fill=None):
        return st.mem.alloc(n, 16, 'heap', name=name, fill=fill).base

    def rd(s, st, addr, n):
        return cells_to_val(st.mem.read_cells(addr, n), st)

    def wr(s, st, addr, x, n):
        st.mem.write_cells(addr, val_to_cells(x, n))

    # ------------------------------------------------------------ layout
    def _discover(s):
        vm = s.vm
        st = vm.new_state()
        # pass 1: learn the size of Sodg<N> from a throw-away instance
        tmp = s.scratch(st, 4096, 'tmpG')
        st1 = s.call1(st, s.pfx + 'empty', tmp, max(s.cap, 2)).st
        pr = s.scratch(st1, 24 * 8, 'probe')
        st1 = s.call1(st1, s.pfx + 'probe', tmp, pr).st
        gsize = s.rd(st1, pr + 32, 8)
        # pass 2: the real instance, allocation sized exactly
        s.g = s.scratch(st, gsize, 'Sodg')
        st = s.call1(st, s.pfx + 'empty', s.g, s.cap).st
        s.after_empty_steps = st.steps
        if s.cap >= 2:
            pr = s.scratch(st, 24 * 8, 'probe')
            stp = s.call1(st, s.pfx + 'probe', s.g, pr).st
            P = [s.rd(stp, pr + 8 * i, 8) for i in range(24)]
        else:
            raise Inconclusive("capacity below 2 is not supported by the probe hook")
        lay = s.scratch(st, 64, 'lay')
        stl = s.call1(st, s.pfx + 'edges_layout', lay).st
        E = [s.rd(stl, lay + 8 * i, 8) for i in range(5)]
        stl = s.call1(st, '@stack_layout', lay).st
        S = [s.rd(stl, lay + 8 * i, 8) for i in range(4)]
        s.P = P
        s.f_stores, s.f_branches, s.f_vertices, s.f_nextv, s.gsize = P[0], P[1], P[2], P[3], P[4]
        s.v0 = P[5]
        s.v_stride = P[6] - P[5]
        s.o_tag, s.o_data, s.o_pers, s.o_edges = P[7] - P[5], P[8] - P[5], P[9] - P[5], P[10] - P[5]
        s.s0 = P[11]
        s.s_stride = P[12] - P[11]
        s.b0 = P[13]
        s.b_stride = P[14] - P[13]
        s.sz_vertex, s.sz_hex, s.sz_label, s.sz_edges, s.sz_stack = P[15], P[16], P[17], P[18], P[19]
        assert P[20] == s.N and P[21] == s.cap and P[22] == NSLOT and P[23] == NSLOT, P
        assert E[0] == s.sz_edges and S[0] == s.sz_stack
        s.e_len, s.e_key, s.e_val, s.e_stride = E[1], E[2], E[3], E[4]
        s.k_next, s.k_item, s.k_istride = S[1], S[2], S[3]
        s.layout = dict(sodg_size=s.gsize, vertex_stride=s.v_stride, tag=s.o_tag, data=s.o_data, persistence=s.o_pers,
                        edges=s.o_edges, edges_len=s.e_len, edge_key=s.e_key, edge_val=s.e_val, edge_stride=s.e_stride,
                        store_stride=s.s_stride, member_stride=s.b_stride, member_next=s.k_next, member_item=s.k_item,
                        hex=s.sz_hex, label=s.sz_label)
        # the three arenas (allocation bases), for frame checks
        s.a_vertices = st.mem.lookup(s.v0).base
        s.a_stores = st.mem.lookup(s.s0).base
        s.a_branches = st.mem.lookup(s.b0).base
        s.concrete0 = st

    # ------------------------------------------------------------ addresses
    def a_tag(s, i): return s.v0 + i * s.v_stride + s.o_tag
    def a_pers(s, i): return s.v0 + i * s.v_stride + s.o_pers
    def a_data(s, i): return s.v0 + i * s.v_stride + s.o_data
    def a_elen(s, i): return s.v0 + i * s.v_stride + s.o_edges + s.e_len
    def a_ekey(s, i, j): return s.v0 + i * s.v_stride + s.o_edges + s.e_key + j * s.e_stride
    def a_eval(s, i, j): return s.v0 + i * s.v_stride + s.o_edges + s.e_val + j * s.e_stride
    def a_cnt(s, b): return s.b0 + b * s.b_stride + s.k_next
    def a_item(s, b, k): return s.b0 + b * s.b_stride + s.k_item + k * s.k_istride
    def a_ctr(s, b): return s.s0 + b * s.s_stride

    def view(s, probe):
        """a second World-like reader for another Sodg instance of the same configuration (e.g. a clone),
        given the 24 words its verif_probe reported"""
        import copy
        o = copy.copy(s)
        P = probe
        o.f_stores, o.f_branches, o.f_vertices, o.f_nextv = P[0], P[1], P[2], P[3]
        o.v0 = P[5]
        o.s0 = P[11]
        o.b0 = P[13]
        o.g = None
        return o

    # ------------------------------------------------------------ readers (any state)
    def tag(s, st, i): return s.rd(st, s.a_tag(i), 8)
    def pers(s, st, i): return s.rd(st, s.a_pers(i), 1)
    def elen(s, st, i): return s.rd(st, s.a_elen(i), 8)
    def etgt(s, st, i, j): return s.rd(st, s.a_eval(i, j), 8)
    def ekey_cells(s, st, i, j): return st.mem.read_cells(s.a_ekey(i, j), s.sz_label)
    def data_cells(s, st, i): return st.mem.read_cells(s.a_data(i), s.sz_hex)
    def cnt(s, st, b): return s.rd(st, s.a_cnt(b), 8)
    def item(s, st, b, k): return s.rd(st, s.a_item(b, k), 8)
    def ctr(s, st, b): return s.rd(st, s.a_ctr(b), 8)
    def pos(s, st): return s.rd(st, s.f_nextv, 8)

    def tag_at(s, st, idx):
        """tag of the vertex with (symbolic) id idx; arbitrary if idx >= cap"""
        r = to_bv(s.tag(st, s.cap - 1), 64)
        for i in reversed(range(s.cap - 1)):
            r = z3.If(idx == i, to_bv(s.tag(st, i), 64), r)
        return r

    def pers_at(s, st, idx):
        r = to_bv(s.pers(st, s.cap - 1), 8)
        for i in reversed(range(s.cap - 1)):
            r = z3.If(idx == i, to_bv(s.pers(st, i), 8), r)
        return r

    def sel(s, terms, idx, bits=64):
        """terms[idx] for a symbolic idx (last one if out of range)"""
        r = to_bv(terms[-1], bits)
        for i in reversed(range(len(terms) - 1)):
            r = z3.If(idx == i, to_bv(terms[i], bits), r)
        return r

    # ------------------------------------------------------------ value builders
    def make_label(s, st, lab, dst=None):
        """write the image of SymLabel `lab` at dst (fresh scratch if None); returns (state, addr)"""
        sc = s.scratch(st, 3 * s.sz_label + 32, 'lbl.' + lab.name)
        arr = sc + 3 * s.sz_label
        cv = lambda x: x.as_long() if z3.is_bv_value(x) else x
        for i, c in enumerate(lab.chars):
            s.wr(st, arr + 4 * i, cv(c), 4)
        st = s.call1(st, '@label_greek', sc, cv(lab.c)).st
        st = s.call1(st, '@label_alpha', sc + s.sz_label, cv(lab.n)).st
        st = s.call1(st, '@label_str', sc + 2 * s.sz_label, arr).st
        imgs = [st.mem.read_cells(sc + k * s.sz_label, s.sz_label) for k in range(3)]
        img = merge_cells(lab.kind == GREEK, imgs[0], merge_cells(lab.kind == ALPHA, imgs[1], imgs[2], st), st)
        if dst is None:
            dst = s.scratch(st, s.sz_label, 'label.' + lab.name)
        st.mem.write_cells(dst, img)
        return st, dst

    def make_hex(s, st, hx, dst=None):
        """write the image of SymHex `hx` at dst; heap variants get their own live buffers"""
        nv = 1 + len(hx.heap_lens)
        sc = s.scratch(st, nv * s.sz_hex + 8 + hx.maxlen(), 'hex.' + hx.name)
        arr = sc + nv * s.sz_hex
        for i, b in enumerate(hx.ib):
            s.wr(st, arr + i, b, 1)
        st = s.call1(st, '@hex_inline', sc, arr, hx.ilen).st
        imgs = [st.mem.read_cells(sc, s.sz_hex)]
        hx.bufs = []
        for k, L in enumerate(hx.heap_lens):
            src = s.scratch(st, L, 'hexsrc')
            for i, b in enumerate(hx.hb[L]):
                s.wr(st, src + i, b, 1)
            before = set(st.mem.pages)
            st = s.call1(st, '@hex_vector', sc + (k + 1) * s.sz_hex, src, L).st
            for pg in set(st.mem.pages) - before:
                a = st.mem.pages[pg]
                if a.kind == 'heap' and a.live and a.size == L:
                    a.name = 'databuf.%s.%d' % (hx.name, L)
                    hx.bufs.append(a.base)
            imgs.append(st.mem.read_cells(sc + (k + 1) * s.sz_hex, s.sz_hex))
        img = imgs[-1]
        for k in reversed(range(nv - 1)):
            img = merge_cells(hx.sel == k, imgs[k], img, st)
        if dst is None:
            dst = s.scratch(st, s.sz_hex, 'hexv.' + hx.name)
        st.mem.write_cells(dst, img)
        return st, dst

    # ------------------------------------------------------------ symbolic pre-state
    def second(s, st, name='Sodg.h'):
        """another empty instance of the same configuration in state st: (state, World view of it)"""
        g2 = s.scratch(st, s.gsize, name)
        st = s.call1(st, s.pfx + 'empty', g2, s.cap).st
        pr = s.scratch(st, 24 * 8, 'probe')
        stp = s.call1(st, s.pfx + 'probe', g2, pr).st
        P = [s.rd(stp, pr + 8 * i, 8) for i in range(24)]
        o = s.view(P)
        o.g = g2
        o.a_vertices = st.mem.lookup(o.v0).base
        o.a_stores = st.mem.lookup(o.s0).base
        o.a_branches = st.mem.lookup(o.b0).base
        return st, o

    def symbolic(s, dirty_absent=True, fixed=None, st=None, prefix=''):
        """fork of the concrete empty graph in which every field is a solver variable.
        Returns (state, Sym).  Nothing is assumed yet: see Sym.inv().  With st given, the instance this
        World (view) describes inside that state is overwritten instead."""
        st = s.concrete0.fork() if st is None else st
        y = Sym(s, fixed, prefix)
        for c in y.wf():
            st.assume(c)
        for i in range(s.cap):
            s.wr(st, s.a_tag(i), y.tag[i], 8)
            s.wr(st, s.a_pers(i), y.pers[i], 1)
            st, _ = s.make_hex(st, y.data[i], s.a_data(i))
            s.wr(st, s.a_elen(i), y.elen[i], 8)
            for j in range(s.N):
                st, _ = s.make_label(st, y.ekey[i][j], s.a_ekey(i, j))
                s.wr(st, s.a_eval(i, j), y.etgt[i][j], 8)
        for b in range(2, NSLOT):
            s.wr(st, s.a_cnt(b), y.cnt[b], 8)
            for k in range(NSLOT):
                s.wr(st, s.a_item(b, k), y.item[b][k], 8)
        for b in range(NSLOT):
            s.wr(st, s.a_ctr(b), y.ctr[b], 8)
        s.wr(st, s.f_nextv, y.pos, 8)
        # bytes the real code leaves uninitialised inside the arenas (padding, unused tails, the
        # inactive part of an enum) become arbitrary *initialised* bytes: a guarded store at a
        # symbolic address must be able to say "unchanged" about them (stated in DESIGN.md)
        import itertools
        for base in (s.a_vertices, s.a_stores, s.a_branches):
            a = st.mem.lookup(base)
            a2, _ = st.mem.find(a.base, a.size, True)
            for off in range(a2.size):
                if a2.cells[off] is None:
                    a2.cells[off] = (z3.BitVec('%spad!a%d_%d' % (prefix, base >> 16, off), 8), 0)
        st.steps = 0
        return st, y


class Sym:
    """the solver variables of a symbolic graph state, and Inv over them"""

    def __init__(s, w, fixed=None, prefix=''):
        """fixed: {variable name: value} -- those fields are constants instead of variables (used where the
        structure of a state is case-split by the runner, e.g. the group structure for save/load)"""
        s.w = w
        s.fixed = fixed = dict(fixed or {})
        cap, N = w.cap, w.N
        s.prefix = prefix
        B = lambda name, bits: z3.BitVec(prefix + name, bits)

        def NB(name, bits, width=64):
            # a variable with a small domain, widened: the range constraint is structural
            if name in fixed:
                return z3.BitVecVal(fixed[name], width)
            return z3.ZeroExt(width - bits, z3.BitVec(prefix + name, bits))
        s.tag = [NB('tag%d' % i, 4) for i in range(cap)]            # I1: tag < 16
        s.pers = [NB('pers%d' % i, 2, 8) for i in range(cap)]
        s.data = [SymHex(prefix + 'd%d' % i, w.heap_lens) for i in range(cap)]
        s.elen = [NB('ne%d' % i, 5) for i in range(cap)]
        s.ekey = [[SymLabel(prefix + 'e%d_%d' % (i, j), fixed.get('lab%d_%d' % (i, j))) for j in range(N)] for i in range(cap)]
        s.etgt = [[(z3.BitVecVal(fixed['t%d_%d' % (i, j)], 64) if 't%d_%d' % (i, j) in fixed else B('t%d_%d' % (i, j), 64)) for j in range(N)] for i in range(cap)]
        s.cnt = [U(1) if b < 2 else NB('cnt%d' % b, 5) for b in range(NSLOT)]       # cnt < 32; I6 says <= 16
        ib = cap.bit_length() + 1      # stale members are arbitrary but small: enough to be out of range
        s.item = [[(U(0) if k == 0 else None) if b < 2 else NB('m%d_%d' % (b, k), ib) for k in range(NSLOT)] for b in range(NSLOT)]
        # counters of group slots equal a recount under Inv (<= cap); those of the reserved slots are unconstrained
        s.ctr = [B('ctr%d' % b, 64) if b < 2 else NB('ctr%d' % b, ib) for b in range(NSLOT)]
        s.pos = NB('pos', ib)

    def wf(s):
        """well-formedness of the encodings (always assumed)"""
        w = s.w
        cs = []
        for i in range(w.cap):
            cs.append(z3.ULE(s.pers[i], 2))
            cs.append(s.data[i].wf())
            cs.append(z3.ULE(s.elen[i], w.N))
            for j in range(w.N):
                cs.append(s.ekey[i][j].wf())
        for b in range(2, NSLOT):
            cs.append(z3.ULE(s.cnt[b], NSLOT))
        return cs

    def concrete(s, model):
        """plain-data snapshot of the pre-state under a model (input of the native replay)"""
        w = s.w
        ev = lambda t: model.eval(t, model_completion=True).as_long()
        vs = []
        for i in range(w.cap):
            d = s.data[i].concrete(model)
            ne = ev(s.elen[i])
            vs.append({'branch': ev(s.tag[i]), 'persistence': ev(s.pers[i]), 'data': d['data'], 'inline': d['inline'],
                       'pad': d.get('pad', []),
                       'edges': [[s.ekey[i][j].concrete(model), ev(s.etgt[i][j])] for j in range(min(ne, w.N))]})
        br = []
        for b in range(NSLOT):
            if b < 2:
                br.append([0])
            else:
                n = ev(s.cnt[b])
                br.append([ev(s.item[b][k]) for k in range(min(n, NSLOT))])
        return {'vertices': vs, 'branches': br, 'stores': [ev(c) for c in s.ctr], 'next_v': ev(s.pos)}


def inv(w, st, full_members=False, counters='eq'):
    """Inv over the state `st` (variables in a pre-state, terms in a post-state), as a list of
    (name, formula).  Only the first min(cap,16) members of a slot can be in use when members are
    distinct ids below cap; `cnt <= min(cap,16)` is implied by I2 and stated as a lemma."""
    cap = w.cap
    K = NSLOT if full_members else w.mcap
    cs = []
    tags = [to_bv(w.tag(st, i), 64) for i in range(cap)]
    pers = [to_bv(w.pers(st, i), 8) for i in range(cap)]
    for i in range(cap):
        cs.append(('I1.tag%d' % i, z3.ULT(tags[i], NSLOT)))
        cs.append(('I1.pers%d' % i, z3.ULE(pers[i], 2)))
    for b in range(2, NSLOT):
        cnt = to_bv(w.cnt(st, b), 64)
        items = [to_bv(w.item(st, b, k), 64) for k in range(K)]
        cs.append(('I2.cnt%d' % b, z3.ULE(cnt, K)))
        mem_ok = []
        for k in range(K):
            mem_ok.append(z3.Implies(z3.UGT(cnt, k), z3.And(z3.ULT(items[k], cap), w.sel(tags, items[k]) == b)))
            for l in range(k + 1, K):
                mem_ok.append(z3.Implies(z3.UGT(cnt, l), items[k] != items[l]))
        cs.append(('I2.members%d' % b, z3.And(*mem_ok)))
        cs.append(('I3.slot%d' % b, z3.And(*[
            z3.Implies(tags[i] == b, z3.Or(*[z3.And(z3.UGT(cnt, k), items[k] == i) for k in range(K)]))
            for i in range(cap)])))
        unread = U(0)
        for k in range(K):
            unread = unread + z3.If(z3.And(z3.UGT(cnt, k), w.sel(pers, items[k], 8) == STORED), U(1), U(0))
        if counters == 'eq':
            cs.append(('I4.counter%d' % b, to_bv(w.ctr(st, b), 64) == unread))
        else:
            cs.append(('I4ge.counter%d' % b, z3.UGE(to_bv(w.ctr(st, b), 64), unread)))
    for b in (0, 1):
        cs.append(('I5.sentinel%d' % b, z3.And(to_bv(w.cnt(st, b), 64) == 1, to_bv(w.item(st, b, 0), 64) == 0)))
    cs.append(('I7.pos', z3.ULE(to_bv(w.pos(st), 64), cap)))
    return cs
