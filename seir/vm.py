"""Symbolic executor over ir.Module: z3 values, concrete-address memory with
copy-on-write forking, solver-resolved symbolic addresses.

Values: python int (concrete, unsigned, already reduced mod 2^bits), z3 BitVecRef
(symbolic), z3 BoolRef (symbolic i1), tuple (first-class aggregate).
Memory cells: int 0..255 | None (uninitialised) | (term, i) = byte i (little
endian) of a z3 bit-vector term.
"""
import itertools
import time
import z3

from . import ir
from .ir import IntTy, PtrTy, ArrTy, VecTy, StructTy, NamedTy, FloatTy, VoidTy

M64 = (1 << 64) - 1
PAGE = 16            # log2 of the page size used to find allocations
GUARD = 4096


class Terminal(Exception):
    """the current path ends here"""

    def __init__(s, kind, detail=None):
        Exception.__init__(s, kind, detail)
        s.kind = kind
        s.detail = detail


class Inconclusive(Exception):
    """the executor cannot go on (unsupported IR, cap hit, solver gave up)"""


class ForkOn(Exception):
    def __init__(s, term, values):
        s.term = term
        s.values = values


def is_sym(x):
    return isinstance(x, z3.ExprRef)


def bvv(v, bits):
    return z3.BitVecVal(v, bits)


def to_bv(x, bits):
    if isinstance(x, int):
        return z3.BitVecVal(x, bits)
    if isinstance(x, z3.BoolRef):
        return z3.If(x, z3.BitVecVal(1, bits), z3.BitVecVal(0, bits))
    return x


def to_bool(x):
    if isinstance(x, int):
        return z3.BoolVal(bool(x & 1))
    if isinstance(x, z3.BoolRef):
        return x
    if x.size() == 1:
        return x == 1
    return z3.Extract(0, 0, x) == 1


def simp(x):
    """simplify; return python int when the result is a numeral"""
    x = z3.simplify(x)
    if z3.is_bv_value(x):
        return x.as_long()
    if z3.is_true(x):
        return 1
    if z3.is_false(x):
        return 0
    return x


def signed(x, bits):
    return x - (1 << bits) if x >> (bits - 1) else x


class Alloc:
    __slots__ = ('base', 'size', 'cells', 'live', 'kind', 'owner', 'name', 'align', 'dead')

    def __init__(s, base, size, kind, owner, name=None, fill=None, align=1):
        s.base = base
        s.size = size
        s.cells = [fill] * size
        s.live = True
        s.kind = kind
        s.owner = owner
        s.name = name
        s.align = align
        s.dead = None        # z3 Bool: freed under this condition (symbolic pointer / joined paths)

    def clone(s, owner):
        a = Alloc.__new__(Alloc)
        a.base = s.base; a.size = s.size; a.cells = list(s.cells); a.live = s.live
        a.kind = s.kind; a.owner = owner; a.name = s.name; a.align = s.align; a.dead = s.dead
        return a


_mem_ids = itertools.count(1)


class Memory:
    """per-state view: page -> Alloc, falling back to the VM's global image"""

    def __init__(s, vm):
        s.vm = vm
        s.id = next(_mem_ids)
        s.pages = {}
        s.st = None         # the state this memory belongs to (for checks that need its path condition)
        s.wlog = None       # optional list of (base, off, n) writes

    def fork(s):
        m = Memory.__new__(Memory)
        m.vm = s.vm
        m.id = next(_mem_ids)
        s.id = next(_mem_ids)       # both sides now share every Alloc: both must copy on write
        m.pages = dict(s.pages)
        m.st = None
        m.wlog = list(s.wlog) if s.wlog is not None else None
        return m

    def alloc(s, size, align=16, kind='heap', name=None, fill=None):
        base = s.vm.fresh_base(size, align)
        a = Alloc(base, size, kind, s.id, name, fill, align)
        for pg in range(base >> PAGE, ((base + max(size, 1) - 1) >> PAGE) + 1):
            s.pages[pg] = a
        return a

    def lookup(s, addr):
        a = s.pages.get(addr >> PAGE)
        if a is None:
            a = s.vm.gpages.get(addr >> PAGE)
        return a

    def find(s, addr, n, write=False):
        a = s.lookup(addr)
        if a is None or addr < a.base or addr + n > a.base + a.size:
            if n == 0 and a is not None and addr == a.base + a.size:
                return a, addr - a.base
            raise Terminal('memerr', "out-of-bounds %s of %d bytes at %#x%s" % (
                'write' if write else 'read', n, addr, s.describe(addr)))
        if not a.live:
            raise Terminal('memerr', "use after free: %d bytes at %#x%s" % (n, addr, s.describe(addr)))
        if a.dead is not None and s.st is not None and s.vm.feasible(s.st, a.dead):
            raise Terminal('memerr', "use after free: %d bytes at %#x%s (freed through a symbolic pointer or on a joined path)" % (n, addr, s.describe(addr)))
        if write:
            if a.kind in ('const', 'fn'):
                raise Terminal('memerr', "write to constant memory at %#x%s" % (addr, s.describe(addr)))
            if a.owner != s.id:
                a = a.clone(s.id)
                for pg in range(a.base >> PAGE, ((a.base + max(a.size, 1) - 1) >> PAGE) + 1):
                    s.pages[pg] = a
        return a, addr - a.base

    def describe(s, addr):
        a = s.lookup(addr)
        if a is None:
            # nearest allocation below
            for d in range(1, 4):
                b = s.pages.get((addr >> PAGE) - d) or s.vm.gpages.get((addr >> PAGE) - d)
                if b is not None:
                    return " (%d bytes past the end of %s[%d])" % (addr - b.base - b.size, b.name or b.kind, b.size)
            return " (no allocation)"
        return " (in %s[%d] at offset %d%s)" % (a.name or a.kind, a.size, addr - a.base, '' if a.live else ', freed')

    def read_cells(s, addr, n):
        if n == 0:
            return []
        a, off = s.find(addr, n)
        return a.cells[off:off + n]

    def write_cells(s, addr, cells):
        n = len(cells)
        if n == 0:
            return
        a, off = s.find(addr, n, True)
        a.cells[off:off + n] = cells
        if s.wlog is not None:
            s.wlog.append((a.base, off, n))

    def free_guarded(s, addr, cond):
        """free(addr) that happens only under cond"""
        a = s.lookup(addr)
        if a is None or a.base != addr or a.kind != 'heap':
            raise Terminal('memerr', "free of a pointer that is not a heap allocation: %#x%s" % (addr, s.describe(addr)))
        if not a.live:
            raise Terminal('memerr', "double free at %#x" % addr)
        if a.dead is not None and s.st is not None and s.vm.feasible(s.st, z3.And(a.dead, cond)):
            raise Terminal('memerr', "double free at %#x" % addr)
        if a.owner != s.id:
            a = a.clone(s.id)
            for pg in range(a.base >> PAGE, ((a.base + max(a.size, 1) - 1) >> PAGE) + 1):
                s.pages[pg] = a
        a.dead = cond if a.dead is None else z3.Or(a.dead, cond)
        return a

    def free(s, addr):
        a = s.lookup(addr)
        if a is None or a.base != addr or a.kind != 'heap':
            raise Terminal('memerr', "free of a pointer that is not a heap allocation: %#x%s" % (addr, s.describe(addr)))
        if not a.live:
            raise Terminal('memerr', "double free at %#x" % addr)
        if a.dead is not None and s.st is not None and s.vm.feasible(s.st, a.dead):
            raise Terminal('memerr', "double free at %#x (already freed through a symbolic pointer or on a joined path)" % addr)
        if a.owner != s.id:
            a = a.clone(s.id)
            for pg in range(a.base >> PAGE, ((a.base + max(a.size, 1) - 1) >> PAGE) + 1):
                s.pages[pg] = a
        a.live = False
        return a


# ------------------------------------------------------------------ cells <-> values

_undef_ctr = itertools.count()


def cells_to_val(cells, st=None):
    """little-endian list of cells -> int or z3 bit-vector of 8*len bits"""
    n = len(cells)
    allint = True
    for c in cells:
        if type(c) is not int:
            allint = False
            break
    if allint:
        return int.from_bytes(bytes(cells), 'little')
    c0 = cells[0]
    if type(c0) is tuple and c0[1] == 0 and c0[0].size() == 8 * n:
        t = c0[0]
        ok = True
        for i in range(1, n):
            c = cells[i]
            if type(c) is not tuple or c[1] != i or c[0] is not t and not c[0].eq(t):
                ok = False
                break
        if ok:
            return t
    # general: group runs
    parts = []   # low to high
    i = 0
    while i < n:
        c = cells[i]
        if type(c) is int:
            j = i
            v = 0
            while j < n and type(cells[j]) is int:
                v |= cells[j] << (8 * (j - i))
                j += 1
            parts.append(z3.BitVecVal(v, 8 * (j - i)))
            i = j
        elif c is None:
            u = z3.BitVec('undef!%d' % next(_undef_ctr), 8)
            if st is not None:
                st.undefs[u.get_id()] = u        # keeps the term alive: ids are reused after gc
                st.nundef += 1
            parts.append(u)
            i += 1
        else:
            t, k = c
            j = i + 1
            while j < n and type(cells[j]) is tuple and cells[j][1] == k + (j - i) and (cells[j][0] is t or cells[j][0].eq(t)):
                j += 1
            hi = 8 * (k + (j - i)) - 1
            lo = 8 * k
            if lo == 0 and hi == t.size() - 1:
                parts.append(t)
            else:
                parts.append(z3.Extract(hi, lo, t))
            i = j
    if len(parts) == 1:
        return simp(parts[0])
    parts.reverse()
    return simp(z3.Concat(*parts))


def val_to_cells(x, n):
    if isinstance(x, int):
        return list((x & ((1 << (8 * n)) - 1)).to_bytes(n, 'little'))
    if isinstance(x, z3.BoolRef):
        x = z3.If(x, z3.BitVecVal(1, 8 * n), z3.BitVecVal(0, 8 * n))
    sz = x.size()
    if sz < 8 * n:
        x = z3.ZeroExt(8 * n - sz, x)
    elif sz > 8 * n:
        x = z3.Extract(8 * n - 1, 0, x)
    x = z3.simplify(x)
    if z3.is_bv_value(x):
        return list(x.as_long().to_bytes(n, 'little'))
    return [(x, i) for i in range(n)]


def cell_term(c):
    """a cell as an 8-bit z3 term (None is not allowed here)"""
    if type(c) is int:
        return z3.BitVecVal(c, 8)
    t, k = c
    if t.size() == 8:
        return t
    return z3.Extract(8 * k + 7, 8 * k, t)


def cell_eq(a, b):
    """syntactic equality of two cells (True/False), None if it needs the solver"""
    if type(a) is int and type(b) is int:
        return a == b
    if a is None or b is None:
        return a is b
    if type(a) is tuple and type(b) is tuple and a[1] == b[1] and (a[0] is b[0] or a[0].eq(b[0])):
        return True
    return None


# ------------------------------------------------------------------ state

class Frame:
    __slots__ = ('fn', 'blk', 'ip', 'env', 'cur', 'prev', 'allocas', 'ret_reg')

    def fork(s):
        f = Frame.__new__(Frame)
        f.fn = s.fn; f.blk = s.blk; f.ip = s.ip; f.env = dict(s.env); f.cur = s.cur; f.prev = s.prev
        f.allocas = list(s.allocas); f.ret_reg = s.ret_reg
        return f


class State:
    def __init__(s, vm):
        s.vm = vm
        s.mem = Memory(vm)
        s.mem.st = s
        s.frames = []
        s.pc = []
        s.model = None
        s.known = {}        # term id -> concrete value (after ForkOn)
        s.undefs = {}
        s.nundef = 0
        s.steps = 0
        s.cand = {}         # term id -> feasible values (over-approximation)
        s.in_merge = False
        s.files = {}
        s.fds = {}
        s.run_cache = None  # shared by all paths of one run()
        s.run_keep = None
        s.base_len = 0
        s.trace = None
        s.notes = []        # free-form (panic locations seen, etc.)

    def fork(s):
        t = State.__new__(State)
        t.vm = s.vm
        t.mem = s.mem.fork()
        t.mem.st = t
        t.frames = [f.fork() for f in s.frames]
        t.pc = list(s.pc)
        t.model = s.model
        t.known = dict(s.known)
        t.undefs = dict(s.undefs)
        t.nundef = s.nundef
        t.steps = s.steps
        t.cand = dict(s.cand)
        t.in_merge = s.in_merge
        t.files = s.files
        t.fds = s.fds
        t.run_cache = s.run_cache
        t.run_keep = s.run_keep
        t.base_len = s.base_len
        t.trace = None if s.trace is None else list(s.trace)
        t.notes = list(s.notes)
        return t

    def assume(s, c):
        """add a constraint (caller guarantees or checks satisfiability)"""
        if isinstance(c, bool):
            if not c:
                raise Terminal('infeasible')
            return
        c = z3.simplify(c)
        if z3.is_true(c):
            return
        s.pc.append(c)
        s.model = None


class Outcome:
    def __init__(s, kind, value, detail, st):
        s.kind = kind        # 'ret' | 'panic' | 'memerr' | 'abort'
        s.value = value
        s.detail = detail
        s.st = st

    def __repr__(s):
        return "<%s %r %r>" % (s.kind, s.value, s.detail)


class SolverCtx:
    """one incremental solver whose assertion stack follows the path condition of
    whichever state asks"""

    def __init__(s, timeout_ms=60000):
        s.sol = z3.SolverFor('QF_BV')
        s.sol.set('timeout', timeout_ms)
        s.stack = []
        s.queries = 0
        s.time = 0.0
        s.sat = 0
        s.unsat = 0
        import os
        s.slow = float(os.environ['SEIR_SLOW']) if os.environ.get('SEIR_SLOW') else None
        s.origins = {}

    def sync(s, pc):
        st = s.stack
        i = 0
        n = min(len(st), len(pc))
        while i < n and st[i] is pc[i]:
            i += 1
        k = len(st) - i
        if k:
            s.sol.pop(k)
            del st[i:]
        for c in pc[i:]:
            s.sol.push()
            s.sol.add(c)
            st.append(c)

    def check(s, pc, *extra, want_model=True):
        import traceback as _tb
        if s.slow is not None:
            fr = _tb.extract_stack(limit=4)
            k = ' < '.join(f.name for f in reversed(fr[:-1]))
            s.origins[k] = s.origins.get(k, 0) + 1
        s.sync(pc)
        t0 = time.time()
        s.sol.push()
        for e in extra:
            s.sol.add(e)
        r = s.sol.check()
        model = None
        if r == z3.sat:
            s.sat += 1
            if want_model:
                model = s.sol.model()
        elif r == z3.unsat:
            s.unsat += 1
        s.sol.pop()
        s.queries += 1
        dt = time.time() - t0
        s.time += dt
        if s.slow is not None and dt > s.slow:
            print("SLOW QUERY %.2fs %s pc=%d: %s" % (dt, r, len(pc), ' && '.join(str(e)[:300].replace('\n', ' ') for e in extra)))
        if r == z3.unknown:
            raise Inconclusive("solver returned unknown (%s)" % s.sol.reason_unknown())
        return r == z3.sat, model


    def oneshot(s, pc, *extra, timeout_ms=300000):
        """a fresh, non-incremental solve of pc && extra (used for the final proof obligations:
        preprocessing makes unsat proofs much cheaper than on the incremental solver)"""
        t0 = time.time()
        sol = z3.Then('simplify', 'propagate-values', 'solve-eqs', 'simplify', 'bit-blast', 'sat').solver()
        sol.set('timeout', timeout_ms)
        sol.add(*pc)
        for e in extra:
            sol.add(e)
        r = sol.check()
        s.queries += 1
        dt = time.time() - t0
        s.time += dt
        if s.slow is not None and dt > s.slow:
            print("SLOW ONESHOT %.2fs %s pc=%d" % (dt, r, len(pc)))
        if r == z3.unknown:
            raise Inconclusive("solver returned unknown (%s)" % sol.reason_unknown())
        if r == z3.sat:
            s.sat += 1
            return True, sol.model()
        s.unsat += 1
        return False, None

    def enumerate(s, pc, term, limit):
        """all values of term under pc (None if more than limit); one solver frame for the whole loop"""
        s.sync(pc)
        t0 = time.time()
        sol = s.sol
        sol.push()
        a = z3.BitVec('enum!%d' % s.queries, term.size())
        sol.add(a == term)
        vals = []
        try:
            while True:
                r = sol.check()
                s.queries += 1
                s.origins['enumerate'] = s.origins.get('enumerate', 0) + 1
                if r == z3.unknown:
                    raise Inconclusive("solver returned unknown (%s)" % sol.reason_unknown())
                if r == z3.unsat:
                    s.unsat += 1
                    break
                s.sat += 1
                v = sol.model().eval(a, model_completion=True).as_long()
                vals.append(v)
                if len(vals) > limit:
                    return None
                sol.add(a != v)
        finally:
            sol.pop()
            dt = time.time() - t0
            s.time += dt
            if s.slow is not None and dt > s.slow:
                print("SLOW ENUM %.2fs %d values pc=%d: %s" % (dt, len(vals), len(pc), str(term)[:200].replace('\n', ' ')))
        return vals


class VM:
    def __init__(s, mod, opts=None):
        s.m = mod
        s.opts = dict(check_assumes=True, step_cap=400000, max_cands=64, max_fork=40, check_flags=True)
        if opts:
            s.opts.update(opts)
        s.gpages = {}
        s.gaddr = {}
        s.faddr = {}
        s.fbyaddr = {}
        s.next_page = 0x100
        s.solver = SolverCtx()
        s.externs = []          # (predicate, handler)
        s.extern_cache = {}
        s.stats = dict(paths=0, steps=0, forks=0, ext_calls={}, funcs=set())
        s.order_vars = {}
        s.order_ids = set()
        s.ghost_mem = Memory(s)   # owner of globals
        s.ghost_mem.id = 0
        from . import stubs
        stubs.install(s)

    # ---------------------------------------------------------- addresses
    def fresh_base(s, size, align):
        npages = ((max(size, 1) + GUARD + GUARD) >> PAGE) + 1
        pg = s.next_page
        s.next_page += npages
        base = (pg << PAGE) + GUARD
        al = max(align, 1)
        base = (base + al - 1) // al * al
        return base

    def fn_addr(s, name):
        a = s.faddr.get(name)
        if a is None:
            base = s.fresh_base(1, 16)
            al = Alloc(base, 1, 'fn', 0, name, 0)
            s.gpages[base >> PAGE] = al
            s.faddr[name] = base
            s.fbyaddr[base] = name
            a = base
        return a

    def sym(s, name):
        a = s.gaddr.get(name)
        if a is not None:
            return a
        name2 = s.m.aliases.get(name, name)
        g = s.m.globals.get(name2)
        if g is None:
            return s.fn_addr(name2)
        ty, init, ext, tls = g
        size = ty.size(s.m)
        base = s.fresh_base(size, max(ty.align(s.m), 16))
        kind = 'global'
        al = Alloc(base, size, kind, 0, name, 0 if init is None else None)
        for pg in range(base >> PAGE, ((base + max(size, 1) - 1) >> PAGE) + 1):
            s.gpages[pg] = al
        s.gaddr[name] = base
        if name2 != name:
            s.gaddr[name2] = base
        if init is not None:
            al.cells = s.const_cells(ty, init)
        return base

    # ---------------------------------------------------------- constants
    def cval(s, ty, v):
        k = v[0]
        if k == 'int':
            return v[1]
        if k == 'glob':
            return s.sym(v[1])
        if k in ('undef', 'zero'):
            return s.zero_of(ty)
        if k == 'float':
            return v[1]
        if k == 'cgep':
            _, sty, base, idx = v
            return s.gep_const(sty, s.cval(None, base), [(t, s.cval(t, i)) for t, i in idx])
        if k == 'ccast':
            _, op, sty, x, ty2 = v
            val = s.cval(sty, x)
            if op == 'trunc':
                return val & ((1 << ty2.bits) - 1)
            if op == 'sext':
                return signed(val, sty.bits) & ((1 << ty2.bits) - 1)
            return val
        if k == 'cbin':
            _, op, aty, a, b = v
            x = s.cval(aty, a); y = s.cval(aty, b); bits = getattr(aty, 'bits', 64); M = (1 << bits) - 1
            r = {'sub': x - y, 'add': x + y, 'mul': x * y, 'and': x & y, 'or': x | y, 'xor': x ^ y,
                 'shl': x << min(y, 200), 'lshr': x >> min(y, 200), 'ashr': signed(x, bits) >> min(y, 200)}[op]
            return r & M
        if k == 'agg':
            return tuple(s.cval(t, e) for t, e in v[1])
        if k == 'bytes':
            return tuple(v[1])
        if k == 'splat':
            return tuple([s.cval(v[1], v[2])] * ty.n)
        raise Inconclusive("constant %r" % (v,))

    def zero_of(s, ty):
        if isinstance(ty, NamedTy):
            ty = ty.res(s.m)
        if isinstance(ty, StructTy):
            return tuple(s.zero_of(e) for e in ty.els)
        if isinstance(ty, ArrTy):
            return tuple(s.zero_of(ty.el) for _ in range(ty.n))
        return 0

    def const_cells(s, ty, v):
        m = s.m
        if isinstance(ty, NamedTy):
            ty = ty.res(m)
        k = v[0]
        if k == 'bytes':
            return list(v[1])
        if k == 'zero':
            return [0] * ty.size(m)
        if k == 'undef':
            return [None] * ty.size(m)
        if k == 'agg':
            if isinstance(ty, ArrTy):
                out = []
                for ety, ev in v[1]:
                    out += s.const_cells(ety, ev)
                return out
            offs, size = ty.offsets(m)
            out = [None] * size
            for (ety, ev), off in zip(v[1], offs):
                b = s.const_cells(ety, ev)
                out[off:off + len(b)] = b
            return out
        val = s.cval(ty, v)
        n = ty.size(m)
        return list((val & ((1 << (8 * n)) - 1)).to_bytes(n, 'little'))

    def gep_const(s, sty, base, idx):
        m = s.m
        addr = base
        ty = sty
        first = True
        for ity, i in idx:
            if ity is not None and isinstance(ity, IntTy):
                i = signed(i, ity.bits)
            if first:
                addr += i * ty.size(m)
                first = False
            else:
                if isinstance(ty, NamedTy):
                    ty = ty.res(m)
                if isinstance(ty, ArrTy):
                    addr += i * ty.el.size(m); ty = ty.el
                elif isinstance(ty, StructTy):
                    addr += ty.offsets(m)[0][i]; ty = ty.els[i]
                else:
                    raise Inconclusive("gep into %r" % ty)
        return addr & M64

    # ---------------------------------------------------------- solver helpers
    def feasible(s, st, cond):
        """is pc && cond satisfiable?  (cond: z3 Bool)"""
        c = z3.simplify(cond)
        if z3.is_true(c):
            return True
        if z3.is_false(c):
            return False
        if st.model is not None:
            try:
                if z3.is_true(st.model.eval(c, model_completion=True)):
                    return True
            except z3.Z3Exception:
                pass
        ok, model = s.solver.check(st.pc, c)
        if ok and st.model is None:
            st.model = model
        return ok

    def must(s, st, cond):
        """does pc imply cond?"""
        return not s.feasible(st, z3.Not(cond))

    def get_model(s, st, *extra):
        ok, model = s.solver.check(st.pc, *extra)
        return model if ok else None

    def values_of(s, st, term, limit=None, exact=False):
        """feasible values of a bit-vector term.  exact: under the current path condition.
        Otherwise an over-approximation is enough (extra candidates only add dead ite arms):
        it is computed once per run under the path condition the run started with, and shared
        by all paths of the run."""
        limit = limit or s.opts['max_cands']
        tid = term.get_id()
        c = st.cand.get(tid)
        if c is not None:
            return c
        doms = s.opts.get('domains')
        if doms and not exact:
            # a term over ONE variable whose domain the obligation has declared (a symbolic text byte): its values by
            # substitution instead of a solver loop (an over-approximation, like every candidate set)
            c = st.run_cache.get(tid) if st.run_cache is not None else None
            if c:
                return c
            vs = _free_vars(term, 2)
            if len(vs) == 1 and vs[0].decl().name() in doms:
                v = vs[0]
                vals = set()
                for x in doms[v.decl().name()]:
                    r = z3.simplify(z3.substitute(term, (v, z3.BitVecVal(x, v.size()))))
                    if not z3.is_bv_value(r):
                        vals = None
                        break
                    vals.add(r.as_long())
                if vals is not None and len(vals) <= limit:
                    c = sorted(vals)
                    if st.run_cache is not None:
                        st.run_cache[tid] = c
                        st.run_keep.append(term)
                    return c
        if not exact and st.run_cache is not None:
            c = st.run_cache.get(tid)
            if c is None:
                c = s.solver.enumerate(st.pc[:st.base_len], term, min(limit, s.opts.get('run_cands', limit)))
                if c is not None:
                    c.sort()
                else:
                    c = False     # too many values under the run's initial path condition (e.g. a pointer field that is
                                  # payload bytes in another variant): enumerate under the path's own condition instead
                st.run_cache[tid] = c
                st.run_keep.append(term)      # keep the term alive: ids are reused after gc
            if c is not False:
                return c
        vals = s.solver.enumerate(st.pc, term, limit)
        if vals is None:
            raise Inconclusive("more than %d feasible values for %s" % (limit, str(term)[:200]))
        vals.sort()
        st.cand[tid] = vals
        return vals

    def concretize(s, st, x, limit=None):
        """python int for x; forks the state if several values are feasible"""
        if isinstance(x, int):
            return x
        if isinstance(x, z3.BoolRef):
            x = to_bv(x, 1)
        x = z3.simplify(x)
        if z3.is_bv_value(x):
            return x.as_long()
        k = st.known.get(x.get_id())
        if k is not None:
            return k
        vals = s.values_of(st, x, limit or s.opts['max_fork'], exact=True)
        if len(vals) == 1:
            st.known[x.get_id()] = vals[0]
            return vals[0]
        if not vals:
            raise Terminal('infeasible')
        raise ForkOn(x, vals)

    def depends_on_undef(s, st, term):
        if not st.nundef:
            return False
        us = _undef_vars(term, st.undefs)
        if not us:
            return False
        # semantic check: can changing the undef bytes change the value?
        sub = [(u, z3.BitVec(u.decl().name() + "'", 8)) for u in us]
        other = z3.substitute(term, *sub)
        ok, _ = s.solver.check(st.pc, term != other, want_model=False)
        return ok

    # ---------------------------------------------------------- memory access
    def split_addr(s, addr):
        """symbolic address -> (K, rest) with addr == K + rest (mod 2^64)"""
        if z3.is_app_of(addr, z3.Z3_OP_BADD):
            K = 0
            rest = []
            for c in addr.children():
                if z3.is_bv_value(c):
                    K += c.as_long()
                else:
                    rest.append(c)
            if len(rest) == 1:
                return K & M64, rest[0]
            if rest:
                r = rest[0]
                for c in rest[1:]:
                    r = r + c
                return K & M64, r
        return 0, addr

    def resolve(s, st, addr, n, write=False):
        """symbolic address -> list of (guard Bool, concrete address); checks every
        feasible address is inside a live allocation"""
        if st.nundef and s.depends_on_undef(st, addr):
            raise Terminal('memerr', "address depends on uninitialised memory")
        K, rest = s.split_addr(addr)
        vals = s.values_of(st, rest)
        if s.opts.get('trace_big') and len(vals) > s.opts['trace_big']:
            from . import stubs as _st
            print("BIG RESOLVE %d candidates in %s" % (len(vals), ' <- '.join(f.fn.name[:110] for f in reversed(st.frames[-3:]))))
        out = []
        for v in vals:
            a = (K + v) & M64
            try:
                st.mem.find(a, n, write)
            except Terminal as e:
                # the candidate set is an over-approximation: confirm under the current pc
                ok, model = s.solver.check(st.pc, rest == v)
                if ok:
                    st.model = model
                    raise Terminal('memerr', e.detail + " [symbolic address]")
                continue
            out.append((rest == v, a))
        if not out:
            raise Terminal('infeasible')
        return out

    def load_bytes(s, st, addr, n):
        if isinstance(addr, int):
            return st.mem.read_cells(addr, n)
        cands = s.resolve(st, addr, n)
        if len(cands) == 1:
            return st.mem.read_cells(cands[0][1], n)
        res = None
        for g, a in reversed(cands):
            cells = st.mem.read_cells(a, n)
            if res is None:
                res = cells
            else:
                res = merge_cells(g, cells, res, st)
        return res

    def store_bytes(s, st, addr, cells):
        if isinstance(addr, int):
            st.mem.write_cells(addr, cells)
            return
        n = len(cells)
        cands = s.resolve(st, addr, n, True)
        if len(cands) == 1:
            st.mem.write_cells(cands[0][1], cells)
            return
        for g, a in cands:
            old = st.mem.read_cells(a, n)
            st.mem.write_cells(a, merge_cells(g, cells, old, st))

    def load(s, st, ty, addr):
        m = s.m
        if isinstance(ty, NamedTy):
            ty = ty.res(m)
        if isinstance(ty, (IntTy, PtrTy, FloatTy)):
            n = ty.size(m)
            x = cells_to_val(s.load_bytes(st, addr, n), st)
            bits = ty.bits
            if bits != 8 * n:
                if isinstance(x, int):
                    x &= (1 << bits) - 1
                else:
                    x = simp(z3.Extract(bits - 1, 0, x))
                if bits == 1 and not isinstance(x, int):
                    x = simp(x == 1)
            return x
        if isinstance(ty, StructTy):
            offs, _ = ty.offsets(m)
            return tuple(s.load(st, e, addr + o) for e, o in zip(ty.els, offs))
        if isinstance(ty, VecTy) and getattr(ty.el, 'bits', 8) == 1:
            x = cells_to_val(s.load_bytes(st, addr, (ty.n + 7) // 8), st)
            if not isinstance(x, int):
                raise Inconclusive("symbolic <n x i1> load")
            return tuple((x >> i) & 1 for i in range(ty.n))
        if isinstance(ty, ArrTy):
            es = ty.el.size(m)
            return tuple(s.load(st, ty.el, addr + i * es) for i in range(ty.n))
        raise Inconclusive("load of %r" % ty)

    def store(s, st, ty, addr, x):
        m = s.m
        if isinstance(ty, NamedTy):
            ty = ty.res(m)
        if isinstance(ty, (IntTy, PtrTy, FloatTy)):
            n = ty.size(m)
            s.store_bytes(st, addr, val_to_cells(x, n))
            return
        if isinstance(ty, StructTy):
            offs, _ = ty.offsets(m)
            for e, o, xv in zip(ty.els, offs, x):
                s.store(st, e, addr + o, xv)
            return
        if isinstance(ty, VecTy) and getattr(ty.el, 'bits', 8) == 1:
            s.store_bytes(st, addr, val_to_cells(_pack_bits(x), (ty.n + 7) // 8))
            return
        if isinstance(ty, ArrTy):
            es = ty.el.size(m)
            for i, xv in enumerate(x):
                s.store(st, ty.el, addr + i * es, xv)
            return
        raise Inconclusive("store of %r" % ty)

    # ---------------------------------------------------------- running
    def new_state(s):
        return State(s)

    def push_frame(s, st, f, args, ret_reg):
        if f.blocks is None:
            f.parse()
        fr = Frame()
        fr.fn = f
        fr.cur = f.order[0]
        fr.blk = f.blocks[fr.cur]
        fr.ip = 0
        fr.prev = None
        fr.allocas = []
        fr.ret_reg = ret_reg
        env = {}
        for (ty, nm), a in zip(f.params, args):
            if nm is not None:
                env[nm] = a
        fr.env = env
        st.frames.append(fr)
        s.stats['funcs'].add(f.name)
        if len(st.frames) > 200:
            raise Inconclusive("call depth")

    def run(s, st0, fname, args, max_paths=4000):
        """explore every path of fname(args) from st0; returns [Outcome]. st0 is not modified"""
        f = s.m.func(fname)
        if f is None:
            raise Inconclusive("no function " + fname)
        st = st0.fork()
        depth = len(st.frames)
        st.run_cache = {}
        st.run_keep = []
        st.base_len = len(st.pc)
        s.push_frame(st, f, args, None)
        work = [st]
        outs = []
        while work:
            st = work.pop()
            if isinstance(st, Outcome):
                outs.append(st)
                s.stats['paths'] += 1
                continue
            o = s.exec_path(st, depth, work)
            if o is not None:
                outs.append(o)
                s.stats['paths'] += 1
            if len(outs) + len(work) > max_paths:
                raise Inconclusive("more than %d paths in %s" % (max_paths, fname))
        return outs

    def exec_path(s, st, depth, work):
        cap = s.opts['step_cap']
        try:
            while True:
                fr = st.frames[-1]
                ins = fr.blk[fr.ip]
                st.steps += 1
                if st.steps > cap:
                    raise Inconclusive("step cap in %s" % fr.fn.name)
                try:
                    r = s.step(st, fr, ins, work)
                except ForkOn as fo:
                    first = None
                    for v in fo.values:
                        t = st.fork() if first is not None else st
                        if first is None:
                            first = t
                        t.pc.append(fo.term == v)
                        t.model = None
                        t.known[fo.term.get_id()] = v
                        t.cand[fo.term.get_id()] = [v]
                        if t is not st:
                            work.append(t)
                    s.stats['forks'] += len(fo.values) - 1
                    continue
                if r is not None and type(r[0]) is str and r[0] == 'switch!':
                    st = r[1]
                    continue
                if r is not None:
                    # return from frame
                    val = r[0]
                    for b in fr.allocas:
                        a = st.mem.lookup(b)
                        if a.owner != st.mem.id:
                            a = a.clone(st.mem.id)
                            for pg in range(a.base >> PAGE, ((a.base + max(a.size, 1) - 1) >> PAGE) + 1):
                                st.mem.pages[pg] = a
                        a.live = False
                    st.frames.pop()
                    if len(st.frames) == depth:
                        s.stats['steps'] += st.steps
                        return Outcome('ret', val, None, st)
                    caller = st.frames[-1]
                    if fr.ret_reg is not None:
                        caller.env[fr.ret_reg] = val
        except Terminal as t:
            s.stats['steps'] += st.steps
            if t.kind == 'infeasible':
                return None
            if s.opts.get('debug') and t.kind == 'memerr':
                print("MEMERR", t.detail)
                for f in st.frames:
                    print("   in", f.fn.name[:100], f.cur, f.ip, f.blk[f.ip].line.strip()[:140])
            del st.frames[depth:]
            return Outcome(t.kind, None, t.detail, st)

    def operand(s, fr, ty, o):
        k = o[0]
        if k == 'reg':
            return fr.env[o[1]]
        if k == 'int':
            return o[1]
        return s.cval(ty, o)

    def goto(s, st, fr, label):
        blk = fr.fn.blocks[label]
        prev = fr.cur
        # phis evaluate simultaneously
        vals = None
        for ins in blk:
            if ins.op != 'phi':
                break
            ty, inc = ins.a
            v = inc.get(prev)
            if v is None:
                raise Inconclusive("phi without predecessor %s in %s" % (prev, fr.fn.name))
            if vals is None:
                vals = []
            vals.append((ins.res, s.operand(fr, ty, v)))
        if vals:
            for r, v in vals:
                fr.env[r] = v
        fr.prev = prev
        fr.cur = label
        fr.blk = blk
        fr.ip = len(vals) if vals else 0

    def branch(s, st, fr, cond, lt, lf, work):
        """cond: symbolic Bool"""
        if st.nundef and s.depends_on_undef(st, cond):
            raise Terminal('memerr', "branch on uninitialised memory in %s" % fr.fn.name)
        m = st.model
        side = None
        if m is not None:
            try:
                ev = m.eval(cond, model_completion=True)
                side = True if z3.is_true(ev) else (False if z3.is_false(ev) else None)
            except z3.Z3Exception:
                side = None
        ncond = z3.Not(cond)
        if side is None:
            okT, mT = s.solver.check(st.pc, cond)
            okF, mF = s.solver.check(st.pc, ncond)
        elif side:
            okT, mT = True, m
            okF, mF = s.solver.check(st.pc, ncond)
        else:
            okF, mF = True, m
            okT, mT = s.solver.check(st.pc, cond)
        if okT and okF:
            if s.order_ids and _undef_vars(cond, s.order_ids):
                s.stats.setdefault('addr_dep', []).append("%s: a branch after %s depends on the relative placement of two allocations" % (fr.fn.name[-70:], fr.prev))
            other = st.fork()
            other.pc.append(ncond)
            other.model = mF
            s.goto(other, other.frames[-1], lf)
            work.append(other)
            st.pc.append(cond)
            st.model = mT
            s.goto(st, fr, lt)
            s.stats['forks'] += 1
            fs = s.stats.setdefault('fork_sites', {})
            k = (fr.fn.name[-60:], fr.prev)
            fs[k] = fs.get(k, 0) + 1
        elif okT:
            st.model = mT
            s.goto(st, fr, lt)
        elif okF:
            st.model = mF
            s.goto(st, fr, lf)
        else:
            raise Terminal('infeasible')

    def step(s, st, fr, ins, work):
        op = ins.op
        a = ins.a
        env = fr.env
        if op == 'load':
            env[ins.res] = s.load(st, a[0], s.operand(fr, None, a[1]))
        elif op == 'store':
            s.store(st, a[0], s.operand(fr, None, a[2]), s.operand(fr, a[0], a[1]))
        elif op == 'gep':
            env[ins.res] = s.gep(fr, a[0], s.operand(fr, None, a[1]), a[2])
        elif op == 'icmp':
            x = s.operand(fr, a[1], a[2])
            y = s.operand(fr, a[1], a[3])
            if s.opts.get('pointer_order', True) and type(x) is int and type(y) is int and x >= 0x1000000 and y >= 0x1000000 \
                    and a[0] not in ('eq', 'ne') and isinstance(a[1], ir.PtrTy):
                ax = st.mem.lookup(x); ay = st.mem.lookup(y)
                if ax is None and st.mem.lookup(x - 1) is not None:
                    ax = st.mem.lookup(x - 1)           # one past the end
                if ay is None and st.mem.lookup(y - 1) is not None:
                    ay = st.mem.lookup(y - 1)
                if ax is not None and ay is not None and ax.base != ay.base:
                    # an ordering comparison between pointers into two different blocks: its outcome is where
                    # the allocator put them.  It becomes a boolean "A lies below B" shared by all comparisons
                    # of that pair, so a non-overlap test simplifies to true and any real dependence shows as
                    # a branch on that boolean (reported, see branch()).
                    lo, hi = (ax.base, ay.base) if ax.base < ay.base else (ay.base, ax.base)
                    v = s.order_vars.get((lo, hi))
                    if v is None:
                        v = z3.Bool('below!%x!%x' % (lo, hi))
                        s.order_vars[(lo, hi)] = v
                        s.order_ids.add(v.get_id())
                    x_below_y = v if ax.base == lo else z3.Not(v)
                    env[ins.res] = x_below_y if a[0] in ('ult', 'ule', 'slt', 'sle') else z3.Not(x_below_y)
                    fr.ip += 1
                    return None
            env[ins.res] = s.icmp(a[0], a[1], x, y)
        elif op == 'br':
            s.goto(st, fr, a[0])
            return None
        elif op == 'condbr':
            c = s.operand(fr, None, a[0])
            if isinstance(c, int):
                s.goto(st, fr, a[1] if c & 1 else a[2])
            else:
                c = z3.simplify(to_bool(c))
                if z3.is_true(c):
                    s.goto(st, fr, a[1])
                elif z3.is_false(c):
                    s.goto(st, fr, a[2])
                else:
                    s.branch(st, fr, c, a[1], a[2], work)
            return None
        elif op in ir.BINOPS:
            env[ins.res] = s.binop(op, a[0], s.operand(fr, a[0], a[1]), s.operand(fr, a[0], a[2]), a[3], st)
        elif op == 'call':
            return s.do_call(st, fr, ins, work)
        elif op == 'ret':
            fr.ip += 1
            return (None if a[1] is None else s.operand(fr, a[0], a[1]),)
        elif op == 'select':
            c = s.operand(fr, None, a[1])
            x = s.operand(fr, a[0], a[2])
            y = s.operand(fr, a[0], a[3])
            if isinstance(c, int):
                env[ins.res] = x if c & 1 else y
            else:
                env[ins.res] = s.ite(to_bool(c), x, y, a[0])
        elif op in ir.CASTS:
            env[ins.res] = s.cast(op, a[0], s.operand(fr, a[0], a[1]), a[2])
        elif op == 'alloca':
            ty, cnt = a
            n = 1 if cnt is None else s.concretize(st, s.operand(fr, None, cnt))
            al = st.mem.alloc(ty.size(s.m) * n, ty.align(s.m), 'stack', name='alloca ' + (ins.res or ''))
            fr.allocas.append(al.base)
            env[ins.res] = al.base
        elif op == 'switch':
            ty, v, d, cases = a
            x = s.operand(fr, ty, v)
            if isinstance(x, int):
                tgt = d
                for cv, lab in cases:
                    if s.cval(ty, cv) == x:
                        tgt = lab
                        break
                s.goto(st, fr, tgt)
            else:
                s.switch(st, fr, x, ty, d, cases, work)
            return None
        elif op == 'extractvalue':
            x = s.operand(fr, a[0], a[1])
            for k in a[2]:
                x = x[k]
            env[ins.res] = x
        elif op == 'insertvalue':
            ty, v, ety, ev, idx = a
            x = s.operand(fr, ty, v)
            env[ins.res] = _insert(x, idx, s.operand(fr, ety, ev))
        elif op == 'freeze':
            env[ins.res] = s.operand(fr, a[0], a[1])
        elif op == 'shufflevector':
            t1, va, vb, tm, vm_ = a
            x = s.operand(fr, t1, va); y = s.operand(fr, t1, vb)
            mask = s.operand(fr, tm, vm_)
            both = tuple(x) + tuple(y)
            env[ins.res] = tuple(both[i] if isinstance(i, int) and i < len(both) else 0 for i in mask)
        elif op == 'insertelement':
            t1, va, te, ve, ti, vi = a
            x = list(s.operand(fr, t1, va))
            i = s.concretize(st, s.operand(fr, ti, vi))
            x[i] = s.operand(fr, te, ve)
            env[ins.res] = tuple(x)
        elif op == 'extractelement':
            t1, va, ti, vi = a
            x = s.operand(fr, t1, va)
            env[ins.res] = x[s.concretize(st, s.operand(fr, ti, vi))]
        elif op == 'unreachable':
            raise Terminal('memerr', "reached 'unreachable' in %s" % fr.fn.name)
        elif op == 'fence':
            pass
        elif op == 'atomicrmw':
            rop, ptr, ty, v = a
            addr = s.operand(fr, None, ptr)
            old = s.load(st, ty, addr)
            val = s.operand(fr, ty, v)
            if rop == 'xchg':
                new = val
            elif rop in ('add', 'sub', 'and', 'or', 'xor'):
                new = s.binop(rop, ty, old, val, (), st)
            else:
                raise Inconclusive("atomicrmw " + rop)
            s.store(st, ty, addr, new)
            env[ins.res] = old
        elif op == 'cmpxchg':
            ptr, ty, cmp, new = a
            addr = s.operand(fr, None, ptr)
            old = s.load(st, ty, addr)
            c = s.operand(fr, ty, cmp)
            nv = s.operand(fr, ty, new)
            eq = s.icmp('eq', ty, old, c)
            if isinstance(eq, int):
                if eq:
                    s.store(st, ty, addr, nv)
            else:
                s.store(st, ty, addr, s.ite(eq, nv, old, ty))
            env[ins.res] = (old, eq)
        elif op == 'unsupported':
            raise Inconclusive("unsupported IR in %s: %s (%s)" % (fr.fn.name, ins.line.strip()[:100], a[0]))
        else:
            raise Inconclusive("opcode " + op)
        fr.ip += 1
        return None

    def switch(s, st, fr, x, ty, d, cases, work):
        if st.nundef and s.depends_on_undef(st, x):
            raise Terminal('memerr', "switch on uninitialised memory in %s" % fr.fn.name)
        bits = ty.bits
        targets = []
        neg = []
        for cv, lab in cases:
            c = s.cval(ty, cv)
            cond = x == z3.BitVecVal(c, bits)
            ok, model = s.solver.check(st.pc, cond)
            if ok:
                targets.append((cond, lab, model))
            neg.append(x != z3.BitVecVal(c, bits))
        dcond = z3.And(*neg) if len(neg) > 1 else neg[0]
        ok, model = s.solver.check(st.pc, dcond)
        if ok:
            targets.append((dcond, d, model))
        if not targets:
            raise Terminal('infeasible')
        for cond, lab, model in targets[1:]:
            o = st.fork()
            o.pc.append(cond)
            o.model = model
            s.goto(o, o.frames[-1], lab)
            work.append(o)
        cond, lab, model = targets[0]
        if len(targets) > 1:
            st.pc.append(cond)
            s.stats['forks'] += len(targets) - 1
        st.model = model
        s.goto(st, fr, lab)

    # ---------------------------------------------------------- scalar ops
    def ite(s, c, x, y, ty):
        if isinstance(x, tuple):
            t = ty.res(s.m) if isinstance(ty, NamedTy) else ty
            ets = t.els if isinstance(t, StructTy) else [t.el] * len(x)
            return tuple(s.ite(c, xa, ya, et) for xa, ya, et in zip(x, y, ets))
        if isinstance(x, int) and isinstance(y, int) and x == y:
            return x
        bits = getattr(ty, 'bits', 64)
        if bits == 1:
            return simp(z3.If(c, to_bool(x), to_bool(y)))
        return simp(z3.If(c, to_bv(x, bits), to_bv(y, bits)))

    def gep(s, fr, sty, base, idx):
        m = s.m
        ty = sty
        first = True
        off = 0          # concrete part
        symoff = None
        for ity, iv in idx:
            i = s.operand(fr, ity, iv)
            if isinstance(i, int):
                if isinstance(ity, IntTy):
                    i = signed(i, ity.bits)
                if first:
                    off += i * ty.size(m)
                    first = False
                else:
                    if isinstance(ty, NamedTy):
                        ty = ty.res(m)
                    if isinstance(ty, ArrTy):
                        off += i * ty.el.size(m); ty = ty.el
                    elif isinstance(ty, StructTy):
                        off += ty.offsets(m)[0][i]; ty = ty.els[i]
                    else:
                        raise Inconclusive("gep into %r" % ty)
            else:
                if ity.bits < 64:
                    i = z3.SignExt(64 - ity.bits, i)
                if first:
                    sz = ty.size(m)
                    first = False
                else:
                    if isinstance(ty, NamedTy):
                        ty = ty.res(m)
                    if isinstance(ty, ArrTy):
                        sz = ty.el.size(m); ty = ty.el
                    else:
                        raise Inconclusive("symbolic struct index")
                t = i * z3.BitVecVal(sz, 64) if sz != 1 else i
                symoff = t if symoff is None else symoff + t
        if symoff is None and isinstance(base, int):
            return (base + off) & M64
        r = to_bv(base, 64)
        if symoff is not None:
            r = r + symoff
        if off:
            r = r + z3.BitVecVal(off & M64, 64)
        return simp(r)

    def icmp(s, pred, ty, x, y):
        if isinstance(ty, VecTy):
            return tuple(s.icmp(pred, ty.el, a, b) for a, b in zip(x, y))
        bits = getattr(ty, 'bits', 64)
        if isinstance(x, int) and isinstance(y, int):
            if pred == 'eq':
                return int(x == y)
            if pred == 'ne':
                return int(x != y)
            if pred[0] == 'u':
                return int({'ult': x < y, 'ule': x <= y, 'ugt': x > y, 'uge': x >= y}[pred])
            sx = signed(x, bits); sy = signed(y, bits)
            return int({'slt': sx < sy, 'sle': sx <= sy, 'sgt': sx > sy, 'sge': sx >= sy}[pred])
        if bits == 1:
            X = to_bool(x); Y = to_bool(y)
            if pred == 'eq':
                return simp(X == Y)
            if pred == 'ne':
                return simp(X != Y)
            X = to_bv(x, 1); Y = to_bv(y, 1)
        else:
            X = to_bv(x, bits); Y = to_bv(y, bits)
        if pred == 'eq':
            c = X == Y
        elif pred == 'ne':
            c = X != Y
        elif pred == 'ult':
            c = z3.ULT(X, Y)
        elif pred == 'ule':
            c = z3.ULE(X, Y)
        elif pred == 'ugt':
            c = z3.UGT(X, Y)
        elif pred == 'uge':
            c = z3.UGE(X, Y)
        elif pred == 'slt':
            c = X < Y
        elif pred == 'sle':
            c = X <= Y
        elif pred == 'sgt':
            c = X > Y
        elif pred == 'sge':
            c = X >= Y
        else:
            raise Inconclusive("icmp " + pred)
        return simp(c)

    def binop(s, op, ty, x, y, flags, st=None):
        if isinstance(ty, VecTy):
            return tuple(s.binop(op, ty.el, a, b, flags, st) for a, b in zip(x, y))
        bits = ty.bits
        M = (1 << bits) - 1
        if isinstance(x, int) and isinstance(y, int):
            if op == 'add':
                r = x + y
                if flags and s.opts['check_flags']:
                    if 'nuw' in flags and r > M:
                        raise Terminal('memerr', "add nuw overflows (IR-level UB)")
            elif op == 'sub':
                r = x - y
                if flags and s.opts['check_flags'] and 'nuw' in flags and r < 0:
                    raise Terminal('memerr', "sub nuw overflows (IR-level UB)")
            elif op == 'mul':
                r = x * y
                if flags and s.opts['check_flags'] and 'nuw' in flags and r > M:
                    raise Terminal('memerr', "mul nuw overflows (IR-level UB)")
            elif op == 'and':
                r = x & y
            elif op == 'or':
                r = x | y
            elif op == 'xor':
                r = x ^ y
            elif op == 'shl':
                r = x << y if y < bits else 0
            elif op == 'lshr':
                r = x >> y if y < bits else 0
            elif op == 'ashr':
                r = signed(x, bits) >> min(y, bits - 1)
            elif op == 'udiv':
                if y == 0:
                    raise Terminal('memerr', "division by zero (IR-level UB)")
                r = x // y
            elif op == 'urem':
                if y == 0:
                    raise Terminal('memerr', "division by zero (IR-level UB)")
                r = x % y
            elif op == 'sdiv':
                if y == 0:
                    raise Terminal('memerr', "division by zero (IR-level UB)")
                sx = signed(x, bits); sy = signed(y, bits)
                q = abs(sx) // abs(sy)
                r = q if (sx < 0) == (sy < 0) else -q
            elif op == 'srem':
                if y == 0:
                    raise Terminal('memerr', "division by zero (IR-level UB)")
                sx = signed(x, bits); sy = signed(y, bits)
                q = abs(sx) // abs(sy)
                q = q if (sx < 0) == (sy < 0) else -q
                r = sx - q * sy
            else:
                raise Inconclusive("binop " + op)
            return r & M
        if bits == 1:
            X = to_bool(x); Y = to_bool(y)
            if op == 'and':
                return simp(z3.And(X, Y))
            if op == 'or':
                return simp(z3.Or(X, Y))
            if op in ('xor', 'add', 'sub'):
                return simp(z3.Xor(X, Y))
            raise Inconclusive("i1 " + op)
        X = to_bv(x, bits); Y = to_bv(y, bits)
        if op == 'add':
            r = X + Y
        elif op == 'sub':
            r = X - Y
        elif op == 'mul':
            r = X * Y
        elif op == 'and':
            r = X & Y
        elif op == 'or':
            r = X | Y
        elif op == 'xor':
            r = X ^ Y
        elif op == 'shl':
            r = X << Y
        elif op == 'lshr':
            r = z3.LShR(X, Y)
        elif op == 'ashr':
            r = X >> Y
        elif op in ('udiv', 'urem', 'sdiv', 'srem'):
            if st is not None and not isinstance(y, int) and s.feasible(st, Y == 0):
                raise Terminal('memerr', "division by zero possible (IR-level UB)")
            r = {'udiv': z3.UDiv, 'urem': z3.URem, 'sdiv': lambda p, q: p / q, 'srem': z3.SRem}[op](X, Y)
        else:
            raise Inconclusive("binop " + op)
        return simp(r)

    def cast(s, op, ty, x, ty2):
        if isinstance(x, tuple) or isinstance(ty2, VecTy):
            if op != 'bitcast':
                if isinstance(ty, VecTy) and isinstance(ty2, VecTy):
                    return tuple(s.cast(op, ty.el, a, ty2.el) for a in x)
                raise Inconclusive("vector cast " + op)
            # bitcast through the little-endian bit image
            if isinstance(ty, VecTy):
                w = getattr(ty.el, 'bits', 64)
                if not all(isinstance(a, int) for a in x):
                    if isinstance(ty2, VecTy):
                        raise Inconclusive("bitcast of a symbolic vector to a vector")
                    # lanes to one integer: concatenate (lane 0 lowest)
                    parts = [to_bv(a, w) if w > 1 else z3.If(to_bool(a), z3.BitVecVal(1, 1), z3.BitVecVal(0, 1)) for a in x]
                    return simp(z3.Concat(*reversed(parts)))
                bitsval = 0
                for i, a in enumerate(x):
                    bitsval |= (a & ((1 << w) - 1)) << (i * w)
            else:
                if not isinstance(x, int):
                    raise Inconclusive("bitcast of a symbolic value to a vector")
                bitsval = x
            if isinstance(ty2, VecTy):
                w2 = getattr(ty2.el, 'bits', 64)
                return tuple((bitsval >> (i * w2)) & ((1 << w2) - 1) for i in range(ty2.n))
            return bitsval & ((1 << ty2.bits) - 1)
        if op in ('ptrtoint', 'inttoptr', 'bitcast', 'addrspacecast'):
            b1 = getattr(ty, 'bits', 64); b2 = getattr(ty2, 'bits', 64)
            if b1 == b2:
                return x
            if b2 < b1:
                op = 'trunc'
            else:
                op = 'zext'
        b1 = ty.bits; b2 = ty2.bits
        if isinstance(x, int):
            if op == 'sext':
                return signed(x, b1) & ((1 << b2) - 1)
            if op == 'trunc':
                return x & ((1 << b2) - 1)
            return x
        if op == 'trunc':
            if b2 == 1:
                return simp(z3.Extract(0, 0, x) == 1)
            return simp(z3.Extract(b2 - 1, 0, x))
        if b1 == 1:
            c = to_bool(x)
            if op == 'zext':
                return simp(z3.If(c, z3.BitVecVal(1, b2), z3.BitVecVal(0, b2)))
            return simp(z3.If(c, z3.BitVecVal((1 << b2) - 1, b2), z3.BitVecVal(0, b2)))
        if op == 'zext':
            return simp(z3.ZeroExt(b2 - b1, x))
        return simp(z3.SignExt(b2 - b1, x))

    # ---------------------------------------------------------- calls
    def do_call(s, st, fr, ins, work):
        rty, callee, cargs = ins.a
        if callee[0] == '%':
            tgt = fr.env[callee]
            tgt = s.concretize(st, tgt)
            name = s.fbyaddr.get(tgt)
            if name is None:
                raise Terminal('memerr', "indirect call to %#x which is not a function" % tgt)
        else:
            name = callee
        name = s.m.aliases.get(name, name)
        f = s.m.funcs.get(name)
        h = None
        if name in s.extern_cache:
            h = s.extern_cache[name]
        else:
            for pred, hh, over in s.externs:
                if (f is None or over) and pred(name):
                    h = hh
                    break
            s.extern_cache[name] = h
        argv = [s.operand(fr, t, v) for t, v in cargs]
        if h is not None:
            ec = s.stats['ext_calls']
            ec[name] = ec.get(name, 0) + 1
            r = h(s, st, name, argv, ins)
            if type(r) is tuple and len(r) == 2 and type(r[0]) is str and r[0] == 'switch!':
                # the stub ran IR of its own and hands back the state to go on with
                r[1].frames[-1].ip += 1
                return r
            if ins.res is not None:
                fr.env[ins.res] = r
            fr.ip += 1
            return None
        if f is None:
            raise Inconclusive("call to external function without a stub: " + name)
        mp = s.opts.get('merge_calls')
        if mp and not st.in_merge and any(p in name for p in mp):
            return s.merged_call(st, fr, ins, name, argv, work)
        fr.ip += 1
        s.push_frame(st, f, argv, ins.res)
        return None

    def merged_call(s, st, fr, ins, name, argv, work):
        """run the callee to completion on every path and join the returning paths into one state
        (cellwise if-then-else under the paths' conditions); other outcomes go on as they are"""
        st.in_merge = True
        try:
            outs = s.run(st, name, argv)
        finally:
            st.in_merge = False
        rets = []
        for o in outs:
            o.st.in_merge = False
            if o.kind == 'ret':
                rets.append(o)
            else:
                work.append(o)
        s.stats['paths'] -= len(outs)
        if not rets:
            raise Terminal('infeasible')
        merged = merge_states(s, st, rets, getattr(ins.a[0], 'bits', 64)) if len(rets) > 1 else (rets[0].st, rets[0].value)
        if merged is None:
            s.stats['unmerged'] = s.stats.get('unmerged', 0) + 1
            for o in rets[1:]:
                cf = o.st.frames[-1]
                if ins.res is not None:
                    cf.env[ins.res] = o.value
                cf.ip += 1
                work.append(o.st)
            o = rets[0]
            cf = o.st.frames[-1]
            if ins.res is not None:
                cf.env[ins.res] = o.value
            cf.ip += 1
            return ('switch!', o.st)
        st2, val = merged
        s.stats['merged'] = s.stats.get('merged', 0) + len(rets) - 1
        cf = st2.frames[-1]
        if ins.res is not None:
            cf.env[ins.res] = val
        cf.ip += 1
        return ('switch!', st2)


def merge_states(vm, base, rets, bits):
    """join the states of several returning paths of one call; None if they cannot be joined
    (an allocation is live on one path and freed on another)"""
    n0 = len(base.pc)
    guards = []
    for o in rets:
        ex = o.st.pc[n0:]
        guards.append(z3.And(*ex) if len(ex) > 1 else (ex[0] if ex else z3.BoolVal(True)))
    mems = [o.st.mem for o in rets]
    bases = {}
    for m in mems:
        for pg, a in m.pages.items():
            bases.setdefault(a.base, pg)
    acc = rets[-1].st.fork()
    acc.pc = list(base.pc)
    acc.pc.append(z3.simplify(z3.Or(*guards)))
    acc.mem.st = acc
    acc.model = None
    acc.known = dict(base.known)
    acc.cand = dict(base.cand)
    acc.run_cache = base.run_cache
    acc.run_keep = base.run_keep
    acc.base_len = base.base_len
    for o in rets:
        acc.undefs.update(o.st.undefs)
        acc.nundef = max(acc.nundef, o.st.nundef)
        acc.steps = max(acc.steps, o.st.steps)
    am = acc.mem
    for b, pg in bases.items():
        objs = [m.pages.get(pg) for m in mems]
        first = objs[0]
        if all(x is first for x in objs):
            continue
        present = [x for x in objs if x is not None]
        if len(present) < len(objs):
            # allocated on some paths only: nobody else can reach it
            x = present[0]
            for p2 in range(x.base >> PAGE, ((x.base + max(x.size, 1) - 1) >> PAGE) + 1):
                am.pages[p2] = x
            continue
        if any(x.size != first.size for x in objs):
            return None
        deads = [z3.BoolVal(True) if not x.live else (x.dead if x.dead is not None else z3.BoolVal(False)) for x in objs]
        if any(x.live != first.live or (x.dead is not None) for x in objs):
            dmerged = z3.simplify(z3.Or(*[z3.And(g, d) for g, d in zip(guards, deads)]))
        else:
            dmerged = None
        cells = list(objs[-1].cells)
        for k in reversed(range(len(objs) - 1)):
            if objs[k] is objs[-1] and k == len(objs) - 2 and False:
                continue
            cells = merge_cells(guards[k], objs[k].cells, cells, acc)
        na = objs[-1].clone(am.id)
        na.cells = cells
        if dmerged is not None:
            if z3.is_true(dmerged):
                na.live = False; na.dead = None
            elif z3.is_false(dmerged):
                na.live = True; na.dead = None
            else:
                na.live = True; na.dead = dmerged
        for p2 in range(na.base >> PAGE, ((na.base + max(na.size, 1) - 1) >> PAGE) + 1):
            am.pages[p2] = na
    val = rets[-1].value
    for k in reversed(range(len(rets) - 1)):
        val = _ite_val(guards[k], rets[k].value, val, bits)
    return acc, val


def _ite_val(g, x, y, bits):
    if x is None and y is None:
        return None
    if isinstance(x, tuple):
        return tuple(_ite_val(g, a, b, 64) for a, b in zip(x, y))
    if isinstance(x, int) and isinstance(y, int) and x == y:
        return x
    if isinstance(x, z3.BoolRef) or isinstance(y, z3.BoolRef) or bits == 1:
        return simp(z3.If(g, to_bool(x), to_bool(y)))
    w = x.size() if is_sym(x) else (y.size() if is_sym(y) else bits)
    return simp(z3.If(g, to_bv(x, w), to_bv(y, w)))


def _pack_bits(lanes):
    v = 0
    for i, b in enumerate(lanes):
        if not isinstance(b, int):
            raise Inconclusive("symbolic <n x i1>")
        v |= (b & 1) << i
    return v


def _insert(x, idx, v):
    if not idx:
        return v
    lst = list(x)
    lst[idx[0]] = _insert(lst[idx[0]], idx[1:], v)
    return tuple(lst)


def _free_vars(term, stop_after):
    """the free variables of term (at most stop_after+1 are collected)"""
    seen = set()
    out = {}
    todo = [term]
    while todo:
        t = todo.pop()
        i = t.get_id()
        if i in seen:
            continue
        seen.add(i)
        if z3.is_const(t):
            if t.decl().kind() == z3.Z3_OP_UNINTERPRETED:
                out[i] = t
                if len(out) > stop_after:
                    break
            continue
        todo.extend(t.children())
    return list(out.values())


def merge_cells(g, a, b, st=None):
    """cellwise If(g, a, b)"""
    out = []
    n = len(a)
    i = 0
    while i < n:
        ca = a[i]; cb = b[i]
        e = cell_eq(ca, cb)
        if e:
            out.append(ca); i += 1
            continue
        # try to merge a whole run belonging to single wide terms on both sides
        j = i
        while j < n and not cell_eq(a[j], b[j]):
            j += 1
        run_a = a[i:j]; run_b = b[i:j]
        if any(c is None for c in run_a) or any(c is None for c in run_b):
            # uninitialised on one side only: the byte becomes an arbitrary *initialised* byte there
            # (a merged image cannot carry per-case initialisation; stated in DESIGN)
            for ca, cb in zip(run_a, run_b):
                if ca is None and cb is None:
                    out.append(None)
                    continue
                ta = cell_term(ca) if ca is not None else z3.BitVec('pad!%d' % next(_undef_ctr), 8)
                tb = cell_term(cb) if cb is not None else z3.BitVec('pad!%d' % next(_undef_ctr), 8)
                out.append((z3.simplify(z3.If(g, ta, tb)), 0))
        else:
            va = cells_to_val(run_a); vb = cells_to_val(run_b)
            w = 8 * (j - i)
            t = z3.simplify(z3.If(g, to_bv(va, w), to_bv(vb, w)))
            if z3.is_bv_value(t):
                out += list(t.as_long().to_bytes(j - i, 'little'))
            else:
                out += [(t, k) for k in range(j - i)]
        i = j
    return out


def _undef_vars(term, undefs, _memo=None):
    """the undef!k variables occurring in term"""
    found = {}
    seen = set()
    stack = [term]
    while stack:
        t = stack.pop()
        tid = t.get_id()
        if tid in seen:
            continue
        seen.add(tid)
        if tid in undefs:
            found[tid] = t
            continue
        if z3.is_app(t):
            stack.extend(t.children())
    return list(found.values())
