"""C08 / C09: save() and load() executed on the build-std IR (serde derive, bincode, the visitors of
emap / micromap / microstack, hashbrown inside emap's visitor, std::fs through an in-memory file).

The *structure* of the pre-state that drives the serializer's control flow at the top level -- group
tags, member lists, persistence of every vertex -- is fixed per task by the runner (every structure of
the configuration is a task); edge counts, label variants and payloads, data representation, length
and bytes stay symbolic and fork inside the run."""
import itertools

import z3

from . import graph as G
from .graph import NSLOT, U, STORED, TAKEN, EMPTY
from .pgraph import Ctx, decode_hex, hex_equals, label_cells_eq
from .vm import to_bv, cells_to_val, Inconclusive, Terminal

PATH = b'/verif.sodg'


def structures(cap):
    """every group structure of `cap` vertices that a history can reach: each vertex absent, ungrouped or
    in a group of two or more; one or two groups; slots 2, 3 and 15; both member orders for a pair"""
    out = []
    for tags in itertools.product((0, 1, 'A', 'B'), repeat=cap):
        a = [i for i, t in enumerate(tags) if t == 'A']
        b = [i for i, t in enumerate(tags) if t == 'B']
        if len(a) == 1 or len(b) == 1 or (b and not a) or (a and b and a[0] > b[0]):
            continue
        slotsets = [(2, 3)] if b else ([(2, None), (15, None)] if a else [(None, None)])
        for sa, sb in slotsets:
            orders = [a] if len(a) != 2 else [a, a[::-1]]
            for oa in orders:
                t = [sa if x == 'A' else (sb if x == 'B' else x) for x in tags]
                mem = {}
                if a:
                    mem[sa] = list(oa)
                if b:
                    mem[sb] = list(b)
                out.append((t, mem))
    return out


def fixed_of(w_cap, tags, members, pers):
    ib = w_cap.bit_length() + 1
    fx = {}
    for i, t in enumerate(tags):
        fx['tag%d' % i] = t
        fx['pers%d' % i] = pers[i]
    for b in range(2, NSLOT):
        m = members.get(b, [])
        fx['cnt%d' % b] = len(m)
        for k, v in enumerate(m):
            fx['m%d_%d' % (b, k)] = v
        fx['ctr%d' % b] = sum(1 for v in m if pers[v] == STORED)
    return fx


LAB_KINDS = ('alpha', 'greek1', 'greek2', 'greek3', 'greek4', 'str1')     # Str of 8 symbolic multi-byte characters: > 4000 paths in load


def _setup(env, N, cap, tags, members, pers, lab='alpha', elen=None, dsel=None):
    """lab: the kind of EVERY label of the run (bincode writes a char as UTF-8, so a symbolic Str label
    alone would fork 4^8 ways): Greek(any character), Alpha(any index), Str of characters that all have
    the same UTF-8 length.  elen / dsel: optionally fix edge counts and data representations."""
    fx = fixed_of(cap, tags, members, pers)
    if elen is not None:
        for i, e in enumerate(elen):
            fx['ne%d' % i] = e
    c = Ctx(env, N, cap, fixed=fx)
    w, vm = c.w, c.vm
    vm.opts['max_cands'] = 300        # UTF-8 width table indexed by a symbolic byte
    st = c.pre.fork()
    y = c.y
    for i in range(cap):
        for j in range(N):
            L = y.ekey[i][j]
            if lab.startswith('greek'):
                k = int(lab[5])
                lo, hi = {1: (0, 0x7F), 2: (0x80, 0x7FF), 3: (0x800, 0xFFFF), 4: (0x10000, 0x10FFFF)}[k]
                st.assume(L.kind == G.GREEK)
                st.assume(z3.And(z3.UGE(L.c, lo), z3.ULE(L.c, hi)))
            elif lab == 'alpha':
                st.assume(L.kind == G.ALPHA)
            else:
                k = int(lab[3])
                lo, hi = {1: (0, 0x7F), 2: (0x80, 0x7FF), 3: (0x800, 0xFFFF), 4: (0x10000, 0x10FFFF)}[k]
                st.assume(L.kind == G.STR)
                for ch in L.chars:
                    st.assume(z3.And(z3.UGE(ch, lo), z3.ULE(ch, hi)))
        if dsel is not None:
            st.assume(y.data[i].sel == dsel[i])
    pth = w.scratch(st, len(PATH), 'arg.path')
    st.mem.write_cells(pth, list(PATH))
    c.pre = st
    return c, st, pth


def _label_eq(c, st, a, b, when):
    """the two labels are equal under the derived PartialEq, executed (a deserialized label is a fresh value:
    its image need not equal the original's cell by cell)"""
    s0 = st.fork()
    s0.assume(when)
    res = []
    for o in c.vm.run(s0, '@label_eq', [a, b]):
        if o.kind != 'ret':
            raise Inconclusive("label_eq: %r" % (o,))
        cond = z3.And(*o.st.pc[len(s0.pc):]) if len(o.st.pc) > len(s0.pc) else z3.BoolVal(True)
        v = o.value
        vb = v if isinstance(v, z3.BoolRef) else ((to_bv(v, 8) & 1) == 1)
        res.append(z3.Implies(cond, vb))
    return z3.And(*res)


def ob_save_load(env, N, cap, tags, members, pers, lab='alpha'):
    """C08: load(save(g)) holds the abstract state of g (allocator position 0), g itself is untouched"""
    members = {int(k): v for k, v in members.items()}
    c, st, pth = _setup(env, N, cap, tags, members, pers, lab)
    w, y, vm = c.w, c.y, c.vm
    T = c.T(); P = c.P(); E = c.E(); CNT = c.CNT(); CTR = c.CTR()
    call = {'op': 'save_load'}
    n = 0
    for o in vm.run(st, w.pfx + 'save', [w.g, pth, len(PATH)]):
        n += 1
        if o.kind != 'ret':
            c.terminal_violation(o, call, ('C08', 'C07'), 'returns')
            continue
        s1 = o.st
        size = o.value
        img = s1.files.get(PATH.decode())
        cl = [('save:size', to_bv(size, 64) == (len(img) if img is not None else -1))]
        fr, nd = c.frame(s1, lambda key: False)
        cl += [('save-pure:' + n_, f) for n_, f in fr]
        if not c.refute(s1, cl, call, lambda name: ('C08',) if name.startswith('save:') else ('C08', 'C01')):
            continue
        out = w.scratch(s1, w.gsize, 'out.loaded')
        for o2 in vm.run(s1, w.pfx + 'load', [pth, len(PATH), out]):
            n += 1
            if o2.kind != 'ret':
                c.terminal_violation(o2, call, ('C08',), 'returns')
                continue
            s2 = o2.st
            ok = o2.value
            okb = ok if isinstance(ok, z3.BoolRef) else ((to_bv(ok, 8) & 1) == 1)
            if vm.feasible(s2, z3.Not(okb)):
                m = vm.get_model(s2, z3.Not(okb))
                c.report(m, ['load:ok'], call, lambda nme: ('C08',))
                continue
            pr = w.scratch(s2, 24 * 8, 'probe')
            s2 = w.call1(s2, w.pfx + 'probe', out, pr).st
            PR = [w.rd(s2, pr + 8 * i, 8) for i in range(24)]
            if not all(isinstance(x, int) for x in PR):
                raise Inconclusive("load: symbolic arena addresses")
            lw = w.view(PR)
            eqs = [('load:capacity', z3.BoolVal(PR[21] == cap)), ('load:position', z3.And(z3.ULE(to_bv(lw.pos(s2), 64), cap), *[
                       z3.Implies(z3.UGT(to_bv(lw.pos(s2), 64), i), T[i] != 0) for i in range(cap)]))]      # restarts at or below the lowest absent id
            for i in range(cap):
                here = T[i] != 0
                v = [to_bv(lw.tag(s2, i), 64) == T[i],
                     z3.Implies(here, to_bv(lw.pers(s2, i), 8) == P[i]),
                     z3.Implies(here, to_bv(lw.elen(s2, i), 64) == E[i])]
                for j in range(N):
                    if tags[i] == 0 or not vm.feasible(s2, z3.UGT(E[i], j)):
                        continue
                    v.append(z3.Implies(z3.And(here, z3.UGT(E[i], j)), z3.And(
                        to_bv(lw.etgt(s2, i, j), 64) == y.etgt[i][j],
                        _label_eq(c, s2, lw.a_ekey(i, j), w.a_ekey(i, j), z3.UGT(E[i], j)))))
                eqs.append(('load:vertex%d' % i, z3.And(*v)))
                if tags[i] != 0 and pers[i] != EMPTY:
                    dec = decode_hex(c, s2, lw.a_data(i))
                    eqs.append(('load:data%d' % i, hex_equals(dec, y.data[i])))
            g = []
            for b in range(NSLOT):
                g.append(to_bv(lw.cnt(s2, b), 64) == CNT[b])
                if b >= 2:
                    g.append(to_bv(lw.ctr(s2, b), 64) == CTR[b])
                for k in range(len(members.get(b, [])) if b >= 2 else 1):
                    g.append(to_bv(lw.item(s2, b, k), 64) == c.ITEM(c.pre, b, k))
            eqs.append(('load:groups', z3.And(*g)))
            c.refute(s2, eqs, call, lambda nme: ('C08',))
    env.cover('saved and loaded', n >= 2)
    env.sample({'op': 'save, then load', 'N': N, 'cap': cap, 'tags': tags, 'members': members, 'persistence': pers, 'labels': lab, 'paths': n})
    env.account(w)


def ob_truncated(env, N, cap, tags, members, pers, lab='alpha', elen=None, dsel=None):
    """C09: the image cut at a SYMBOLIC length k < size: load() must return Err on every path
    (no Ok, no panic, no memory error)"""
    members = {int(k): v for k, v in members.items()}
    c, st, pth = _setup(env, N, cap, tags, members, pers, lab, elen, dsel)
    w, y, vm = c.w, c.y, c.vm
    call = {'op': 'load of a truncated image'}
    n = 0
    cuts = set()
    for o in vm.run(st, w.pfx + 'save', [w.g, pth, len(PATH)]):
        if o.kind != 'ret':
            continue            # C08's business
        s1 = o.st
        img = s1.files.get(PATH.decode())
        L = len(img)
        k = z3.BitVec('cut', 64)
        s1.assume(z3.ULT(k, L))
        out = w.scratch(s1, w.gsize, 'out.loaded')
        vm.opts['truncate'] = {PATH.decode(): k}
        try:
            outs = vm.run(s1, w.pfx + 'load', [pth, len(PATH), out])
        finally:
            vm.opts['truncate'] = None
        for o2 in outs:
            n += 1
            if o2.kind != 'ret':
                m = vm.get_model(o2.st)
                if m is not None:
                    kv = m.eval(k, model_completion=True).as_long()
                    cc = dict(call, cut=kv, size=L)
                    job = {'n': N, 'cap': cap, 'pre': y.concrete(m), 'calls': [{'op': 'save_cut_load', 'cut': kv}]}
                    env.violation(kind=o2.kind, clauses=['truncated:%s' % o2.kind], props=['C09'], call=cc, job=job, detail=o2.detail)
                continue
            ok = o2.value
            okb = ok if isinstance(ok, z3.BoolRef) else ((to_bv(ok, 8) & 1) == 1)
            sat, m = vm.solver.check(o2.st.pc, okb)
            if sat:
                kv = m.eval(k, model_completion=True).as_long()
                job = {'n': N, 'cap': cap, 'pre': y.concrete(m), 'calls': [{'op': 'save_cut_load', 'cut': kv}]}
                env.violation(kind='clause', clauses=['truncated:accepted'], props=['C09'], call=dict(call, cut=kv, size=L), job=job)
            else:
                mm = vm.get_model(o2.st)
                if mm is not None:
                    cuts.add(mm.eval(k, model_completion=True).as_long())
    env.cover('several distinct cut positions are rejected', len(cuts) >= 5)
    env.sample({'op': 'save, cut at a symbolic length, load', 'N': N, 'cap': cap, 'tags': tags, 'persistence': pers, 'paths': n,
                'some cut positions (one per rejecting path)': sorted(cuts)[:12], 'rejecting paths': len(cuts)})
    env.account(w)
