"""Loader for the textual LLVM IR that rustc emits (--emit=llvm-ir).

Only what rustc produces is handled.  Function bodies are indexed on load and
parsed on first use.  Anything the parser does not understand becomes an
`unsupported` instruction; executing one makes the run inconclusive.
"""
import re

TOK = re.compile(r'''
    c"(?:[^"\\]|\\[0-9A-Fa-f]{2}|\\\\)*"      |   # c"..." string
    [%@]"(?:[^"\\]|\\.)*"                      |   # quoted ident
    [%@][-a-zA-Z$._0-9]+                       |   # ident
    ![-a-zA-Z$._0-9]*(?:\([^)]*\))?            |   # metadata ref
    \#[0-9]+                                   |   # attr group
    0x[KMLHR]?[0-9A-Fa-f]+                     |   # hex float / int
    -?[0-9]+(?:\.[0-9]+(?:e[+-]?[0-9]+)?)?     |   # number
    "(?:[^"\\]|\\.)*"                          |   # plain string
    [a-zA-Z_][-a-zA-Z_.0-9]*                   |   # word
    \.\.\.                                     |
    [()\[\]{}<>,=*:|]
''', re.X)

IDENT = r'(@"(?:[^"\\]|\\.)*"|@[-a-zA-Z$._0-9]+)'


def tokenize(line, ren=None):
    out = []
    pos = 0
    n = len(line)
    match = TOK.match
    while pos < n:
        ch = line[pos]
        if ch == ' ' or ch == '\t':
            pos += 1
            continue
        if ch == ';':
            break
        m = match(line, pos)
        if not m:
            raise SyntaxError("tok: %r in %r" % (line[pos:pos + 20], line[:120]))
        t = m.group(0)
        if ren and t[0] == '@':
            t = ren.get(t, t)
        out.append(t)
        pos = m.end()
    return out


# ---------------------------------------------------------------- types

class Ty:
    pass


class IntTy(Ty):
    __slots__ = ('bits',)

    def __init__(s, bits):
        s.bits = bits

    def size(s, m):
        return (s.bits + 7) // 8 if s.bits <= 64 else (s.bits + 63) // 64 * 8

    def align(s, m):
        n = s.size(m)
        return min(16, 1 << ((n - 1).bit_length())) if n > 1 else 1

    def __repr__(s):
        return "i%d" % s.bits


class PtrTy(Ty):
    bits = 64

    def size(s, m):
        return 8

    def align(s, m):
        return 8

    def __repr__(s):
        return "ptr"


class VoidTy(Ty):
    def __repr__(s):
        return "void"


class ArrTy(Ty):
    __slots__ = ('n', 'el')

    def __init__(s, n, el):
        s.n = n
        s.el = el

    def size(s, m):
        return s.n * s.el.size(m)

    def align(s, m):
        return s.el.align(m)

    def __repr__(s):
        return "[%d x %r]" % (s.n, s.el)


class VecTy(ArrTy):
    def align(s, m):
        n = s.size(m)
        return min(16, 1 << ((n - 1).bit_length())) if n > 1 else 1

    def __repr__(s):
        return "<%d x %r>" % (s.n, s.el)


class StructTy(Ty):
    __slots__ = ('els', 'packed', '_off')

    def __init__(s, els, packed=False):
        s.els = els
        s.packed = packed
        s._off = None

    def offsets(s, m):
        if s._off is None:
            off = 0
            res = []
            for e in s.els:
                a = 1 if s.packed else e.align(m)
                off = (off + a - 1) // a * a
                res.append(off)
                off += e.size(m)
            a = s.align(m)
            s._off = (res, (off + a - 1) // a * a)
        return s._off

    def size(s, m):
        return s.offsets(m)[1]

    def align(s, m):
        return 1 if s.packed else max([e.align(m) for e in s.els] + [1])

    def __repr__(s):
        return "{%s}" % ",".join(map(repr, s.els))


class NamedTy(Ty):
    __slots__ = ('name',)

    def __init__(s, name):
        s.name = name

    def res(s, m):
        return m.types[s.name]

    def size(s, m):
        return s.res(m).size(m)

    def align(s, m):
        return s.res(m).align(m)

    def __repr__(s):
        return s.name


class FloatTy(Ty):
    __slots__ = ('n',)
    SZ = {'half': 2, 'bfloat': 2, 'float': 4, 'double': 8, 'fp128': 16, 'x86_fp80': 16}

    def __init__(s, n):
        s.n = n

    @property
    def bits(s):
        return s.SZ[s.n] * 8

    def size(s, m):
        return s.SZ[s.n]

    def align(s, m):
        return s.SZ[s.n]

    def __repr__(s):
        return s.n


class FnTy(Ty):
    def __repr__(s):
        return "fn"


class P:
    """token stream"""
    __slots__ = ('t', 'i')

    def __init__(s, toks):
        s.t = toks
        s.i = 0

    def peek(s, k=0):
        return s.t[s.i + k] if s.i + k < len(s.t) else None

    def next(s):
        x = s.t[s.i]
        s.i += 1
        return x

    def eat(s, x):
        if s.i < len(s.t) and s.t[s.i] == x:
            s.i += 1
            return True
        return False

    def expect(s, x):
        y = s.next()
        if y != x:
            raise SyntaxError("expected %r got %r near %r" % (x, y, s.t[max(0, s.i - 6):s.i + 6]))

    def done(s):
        return s.i >= len(s.t)


_INT_RE = re.compile(r'i[0-9]+$')
_NUM_RE = re.compile(r'-?[0-9]+$')


def parse_type(p):
    t = p.next()
    if _INT_RE.match(t):
        ty = IntTy(int(t[1:]))
    elif t == 'ptr':
        ty = PtrTy()
        if p.peek() == 'addrspace':
            p.next(); p.expect('('); p.next(); p.expect(')')
    elif t == 'void':
        ty = VoidTy()
    elif t in FloatTy.SZ:
        ty = FloatTy(t)
    elif t == '[':
        n = int(p.next()); p.expect('x'); el = parse_type(p); p.expect(']')
        ty = ArrTy(n, el)
    elif t == '{':
        els = []
        if not p.eat('}'):
            while True:
                els.append(parse_type(p))
                if p.eat('}'):
                    break
                p.expect(',')
        ty = StructTy(els)
    elif t == '<':
        if p.peek() == '{':
            p.next(); els = []
            if not p.eat('}'):
                while True:
                    els.append(parse_type(p))
                    if p.eat('}'):
                        break
                    p.expect(',')
            p.expect('>')
            ty = StructTy(els, packed=True)
        else:
            n = int(p.next()); p.expect('x'); el = parse_type(p); p.expect('>')
            ty = VecTy(n, el)
    elif t[0] == '%':
        ty = NamedTy(t)
    elif t in ('metadata', 'label', 'token'):
        ty = VoidTy()
    else:
        raise SyntaxError("type? %r" % (t,))
    # function type suffix:  ret (params...)
    if p.peek() == '(':
        depth = 0
        while True:
            x = p.next()
            if x == '(':
                depth += 1
            elif x == ')':
                depth -= 1
                if depth == 0:
                    break
        ty = FnTy()
    return ty


ATTR_PAREN = {'captures', 'dereferenceable', 'dereferenceable_or_null', 'range', 'sret', 'byval',
              'initializes', 'memory', 'align', 'nofpclass', 'elementtype', 'inalloca', 'preallocated',
              'byref', 'allocsize', 'alignstack', 'vscale_range', 'uwtable', 'allockind'}
ATTR_WORDS = {'noalias', 'noundef', 'nonnull', 'readonly', 'writeonly', 'readnone', 'nocapture', 'zeroext',
              'signext', 'inreg', 'returned', 'immarg', 'nofree', 'dead_on_unwind', 'writable', 'allocptr',
              'allocalign', 'nest', 'swiftself', 'dead_on_return', 'noext', 'swifterror', 'swiftasync'}
FMF = {'fast', 'nnan', 'ninf', 'nsz', 'arcp', 'contract', 'afn', 'reassoc'}
CCONV = {'fastcc', 'ccc', 'coldcc', 'preserve_mostcc', 'preserve_allcc', 'tailcc', 'cold', 'x86_64_sysvcc'}


def skip_attrs(p):
    while True:
        t = p.peek()
        if t in ATTR_WORDS:
            p.next()
            continue
        if t == 'align':
            p.next()
            if p.peek() == '(':
                p.next(); p.next(); p.expect(')')
            else:
                p.next()
            continue
        if t in ATTR_PAREN and p.peek(1) == '(':
            p.next(); p.next(); depth = 1
            while depth:
                x = p.next()
                if x == '(':
                    depth += 1
                elif x == ')':
                    depth -= 1
            continue
        break


def cstring(tok):
    body = tok[2:-1]
    out = bytearray()
    i = 0
    n = len(body)
    while i < n:
        ch = body[i]
        if ch == '\\':
            if body[i + 1] == '\\':
                out.append(0x5C); i += 2
            else:
                out.append(int(body[i + 1:i + 3], 16)); i += 3
        else:
            out += ch.encode('utf-8'); i += 1
    return bytes(out)


# operand / constant AST:
#   ('reg', name) ('int', v) ('glob', name) ('undef',) ('zero',) ('bytes', b) ('agg', [(ty, val)...])
#   ('cgep', srcty, base, [(ty, idx)...]) ('ccast', op, sty, v, dty) ('cbin', op, ty, a, b) ('float', bits)
CONST_BIN = ('sub', 'add', 'mul', 'and', 'or', 'xor', 'shl', 'lshr', 'ashr')


def parse_value(p, ty):
    t = p.next()
    c0 = t[0]
    if c0 == '%':
        return ('reg', t)
    if c0 == '@':
        return ('glob', t)
    if _NUM_RE.match(t):
        v = int(t)
        bits = getattr(ty, 'bits', 64)
        return ('int', v & ((1 << bits) - 1))
    if t == 'true':
        return ('int', 1)
    if t == 'false':
        return ('int', 0)
    if t == 'null':
        return ('int', 0)
    if t in ('undef', 'poison'):
        return ('undef',)
    if t == 'zeroinitializer':
        return ('zero',)
    if t == 'none':
        return ('undef',)
    if t.startswith('c"'):
        return ('bytes', cstring(t))
    if t.startswith('0x'):
        body = t[2:]
        if body[0] in 'KMLHR':
            return ('float', int(body[1:], 16), body[0])
        return ('float', int(body, 16), 'D')      # double given as 64-bit hex
    if re.match(r'-?[0-9]+\.[0-9]', t):
        import struct
        return ('float', struct.unpack('<Q', struct.pack('<d', float(t)))[0], 'D')
    if t in ('[', '{', '<'):
        close = {'[': ']', '{': '}', '<': '>'}[t]
        packed_struct = False
        if t == '<' and p.peek() == '{':
            p.next(); packed_struct = True; close = '}'
        els = []
        if not p.eat(close):
            while True:
                ety = parse_type(p); skip_attrs(p); ev = parse_value(p, ety); els.append((ety, ev))
                if p.eat(close):
                    break
                p.expect(',')
        if packed_struct:
            p.expect('>')
        return ('agg', els)
    if t == 'getelementptr':
        while p.peek() in ('inbounds', 'nuw', 'nusw'):
            p.next()
        if p.peek() == 'inrange':
            p.next(); p.expect('(')
            while p.next() != ')':
                pass
        p.expect('('); sty = parse_type(p); p.expect(',')
        bty = parse_type(p); base = parse_value(p, bty); idx = []
        while p.eat(','):
            if p.peek() == 'inrange':
                p.next()
            ity = parse_type(p); idx.append((ity, parse_value(p, ity)))
        p.expect(')')
        return ('cgep', sty, base, idx)
    if t in ('ptrtoint', 'inttoptr', 'bitcast', 'addrspacecast'):
        p.expect('('); sty = parse_type(p); v = parse_value(p, sty); p.expect('to'); dty = parse_type(p); p.expect(')')
        return ('ccast', t, sty, v, dty)
    if t in ('trunc', 'zext', 'sext'):
        while p.peek() in ('nuw', 'nsw', 'nneg'):
            p.next()
        p.expect('('); sty = parse_type(p); v = parse_value(p, sty); p.expect('to'); ty2 = parse_type(p); p.expect(')')
        return ('ccast', t, sty, v, ty2)
    if t in CONST_BIN:
        while p.peek() in ('nuw', 'nsw', 'exact', 'disjoint'):
            p.next()
        p.expect('('); aty = parse_type(p); a = parse_value(p, aty); p.expect(','); bty = parse_type(p)
        b = parse_value(p, bty); p.expect(')')
        return ('cbin', t, aty, a, b)
    if t == 'icmp':
        pred = p.next(); p.expect('('); aty = parse_type(p); a = parse_value(p, aty); p.expect(',')
        bty = parse_type(p); b = parse_value(p, bty); p.expect(')')
        return ('cicmp', pred, aty, a, b)
    if t == 'splat':
        p.expect('('); ety = parse_type(p); v = parse_value(p, ety); p.expect(')')
        return ('splat', ety, v)
    if t == 'blockaddress' or t == 'dso_local_equivalent' or t == 'no_cfi':
        raise NotImplementedError(t)
    raise SyntaxError("value? %r" % (t,))


class Instr:
    __slots__ = ('res', 'op', 'a', 'line', 'meta')

    def __init__(s, res, op, a, line, meta=None):
        s.res = res
        s.op = op
        s.a = a
        s.line = line
        s.meta = meta


class Func:
    def __init__(s, name, params, retty, mod):
        s.name = name
        s.params = params
        s.retty = retty
        s.blocks = None      # parsed lazily
        s.order = None
        s.body = None        # raw lines
        s.ren = None
        s.mod = mod
        s.ninstr = 0

    def parse(s):
        if s.blocks is not None:
            return
        blocks = {}
        order = []
        blk = None
        pend = None
        n = 0
        for line in s.body:
            if pend is not None:
                pend += ' ' + line.strip()
                if not line.strip().startswith(']'):
                    continue
                line = pend
                pend = None
            else:
                st = line.lstrip()
                if st.startswith('switch') and line.rstrip().endswith('['):
                    pend = line
                    continue
            st = line.strip()
            if not st or st[0] == ';':
                continue
            if line[0] not in ' \t':
                m = re.match(r'^("(?:[^"\\]|\\.)*"|[-a-zA-Z$._0-9]+):', line)
                if m:
                    lab = '%' + m.group(1)
                    blk = []
                    blocks[lab] = blk
                    order.append(lab)
                    continue
            if blk is None:
                blk = []
                blocks['%0start'] = blk
                order.append('%0start')
            try:
                ins = parse_instr(tokenize(line, s.ren), line)
            except (NotImplementedError, SyntaxError, AssertionError, IndexError, ValueError, KeyError) as e:
                ins = Instr(None, 'unsupported', (repr(e),), line)
            blk.append(ins)
            n += 1
        s.blocks = blocks
        s.order = order
        s.ninstr = n
        s.body = None


BINOPS = {'add', 'sub', 'mul', 'udiv', 'sdiv', 'urem', 'srem', 'and', 'or', 'xor', 'shl', 'lshr', 'ashr'}
CASTS = {'zext', 'sext', 'trunc', 'ptrtoint', 'inttoptr', 'bitcast', 'addrspacecast'}
FBIN = {'fadd', 'fsub', 'fmul', 'fdiv', 'frem'}
FCAST = {'fptoui', 'fptosi', 'uitofp', 'sitofp', 'fpext', 'fptrunc'}


def split_meta(toks):
    """remove ', !foo !n' attachments; return (tokens, metadata names present)"""
    out = []
    meta = None
    i = 0
    n = len(toks)
    while i < n:
        t = toks[i]
        if t == ',' and i + 1 < n and toks[i + 1][0] == '!':
            if meta is None:
                meta = {}
            key = toks[i + 1]
            i += 2
            val = None
            while i < n and toks[i][0] == '!':
                val = toks[i]
                i += 1
            meta[key] = val
            continue
        out.append(t)
        i += 1
    return out, meta


def parse_instr(toks, line):
    toks, meta = split_meta(toks)
    p = P(toks)
    res = None
    if p.peek(1) == '=':
        res = p.next()
        p.next()
    op = p.next()
    if op in ('tail', 'musttail', 'notail'):
        op = p.next()
    if op == 'alloca':
        ty = parse_type(p)
        cnt = None
        if p.eat(','):
            if p.peek() != 'align':
                cty = parse_type(p); cnt = parse_value(p, cty)
        return Instr(res, 'alloca', (ty, cnt), line)
    if op == 'load':
        atomic = False
        while p.peek() in ('atomic', 'volatile'):
            atomic = atomic or p.next() == 'atomic'
        ty = parse_type(p); p.expect(','); pty = parse_type(p); ptr = parse_value(p, pty)
        return Instr(res, 'load', (ty, ptr), line, meta)
    if op == 'store':
        while p.peek() in ('atomic', 'volatile'):
            p.next()
        ty = parse_type(p); v = parse_value(p, ty); p.expect(','); pty = parse_type(p); ptr = parse_value(p, pty)
        return Instr(res, 'store', (ty, v, ptr), line)
    if op == 'getelementptr':
        while p.peek() in ('inbounds', 'nuw', 'nusw'):
            p.next()
        sty = parse_type(p); p.expect(','); bty = parse_type(p); base = parse_value(p, bty); idx = []
        while p.eat(','):
            ity = parse_type(p); idx.append((ity, parse_value(p, ity)))
        return Instr(res, 'gep', (sty, base, idx), line)
    if op in BINOPS:
        flags = []
        while p.peek() in ('nuw', 'nsw', 'exact', 'disjoint'):
            flags.append(p.next())
        ty = parse_type(p); a = parse_value(p, ty); p.expect(','); b = parse_value(p, ty)
        return Instr(res, op, (ty, a, b, tuple(flags)), line)
    if op == 'icmp':
        while p.peek() in ('samesign',):
            p.next()
        pred = p.next(); ty = parse_type(p); a = parse_value(p, ty); p.expect(','); b = parse_value(p, ty)
        return Instr(res, 'icmp', (pred, ty, a, b), line)
    if op in CASTS:
        while p.peek() in ('nneg', 'nuw', 'nsw'):
            p.next()
        ty = parse_type(p); v = parse_value(p, ty); p.expect('to'); ty2 = parse_type(p)
        return Instr(res, op, (ty, v, ty2), line)
    if op == 'br':
        if p.peek() == 'label':
            p.next()
            return Instr(None, 'br', (p.next(),), line)
        ty = parse_type(p); c = parse_value(p, ty); p.expect(','); p.expect('label'); t = p.next()
        p.expect(','); p.expect('label'); f = p.next()
        return Instr(None, 'condbr', (c, t, f), line)
    if op == 'switch':
        ty = parse_type(p); v = parse_value(p, ty); p.expect(','); p.expect('label'); d = p.next()
        p.expect('['); cases = []
        while not p.eat(']'):
            cty = parse_type(p); cv = parse_value(p, cty); p.expect(','); p.expect('label')
            cases.append((cv, p.next()))
        return Instr(None, 'switch', (ty, v, d, cases), line)
    if op == 'phi':
        while p.peek() in FMF:
            p.next()
        ty = parse_type(p); inc = {}
        while True:
            p.expect('['); v = parse_value(p, ty); p.expect(','); lab = p.next(); p.expect(']')
            inc[lab] = v
            if not p.eat(','):
                break
        return Instr(res, 'phi', (ty, inc), line)
    if op == 'select':
        while p.peek() in FMF:
            p.next()
        cty = parse_type(p); c = parse_value(p, cty); p.expect(','); ty = parse_type(p); a = parse_value(p, ty)
        p.expect(','); ty2 = parse_type(p); b = parse_value(p, ty2)
        return Instr(res, 'select', (ty, c, a, b, cty), line)
    if op == 'call':
        while True:
            t = p.peek()
            if t in CCONV or t in FMF:
                p.next()
            elif t in ATTR_WORDS or t == 'align' or (t in ATTR_PAREN and p.peek(1) == '('):
                skip_attrs(p)
            elif t == 'addrspace':
                p.next(); p.expect('('); p.next(); p.expect(')')
            else:
                break
        rty = parse_type(p)
        callee = p.next()
        if callee == 'asm':
            raise NotImplementedError("inline asm")
        p.expect('('); args = []
        if not p.eat(')'):
            while True:
                if p.peek() == 'metadata':
                    p.next(); p.next(); args.append((None, ('undef',)))
                else:
                    aty = parse_type(p); skip_attrs(p); args.append((aty, parse_value(p, aty)))
                if p.eat(')'):
                    break
                p.expect(',')
        return Instr(res, 'call', (rty, callee, args), line)
    if op == 'ret':
        ty = parse_type(p)
        if isinstance(ty, VoidTy):
            return Instr(None, 'ret', (ty, None), line)
        return Instr(None, 'ret', (ty, parse_value(p, ty)), line)
    if op == 'unreachable':
        return Instr(None, 'unreachable', (), line)
    if op == 'extractvalue':
        ty = parse_type(p); v = parse_value(p, ty); idx = []
        while p.eat(','):
            idx.append(int(p.next()))
        return Instr(res, 'extractvalue', (ty, v, idx), line)
    if op == 'insertvalue':
        ty = parse_type(p); v = parse_value(p, ty); p.expect(','); ety = parse_type(p); ev = parse_value(p, ety)
        idx = []
        while p.eat(','):
            idx.append(int(p.next()))
        return Instr(res, 'insertvalue', (ty, v, ety, ev, idx), line)
    if op == 'freeze':
        ty = parse_type(p); v = parse_value(p, ty)
        return Instr(res, 'freeze', (ty, v), line)
    if op == 'shufflevector':
        t1 = parse_type(p); a = parse_value(p, t1); p.expect(','); t2 = parse_type(p); b = parse_value(p, t2); p.expect(',')
        tm = parse_type(p); m = parse_value(p, tm)
        return Instr(res, 'shufflevector', (t1, a, b, tm, m), line)
    if op == 'insertelement':
        t1 = parse_type(p); a = parse_value(p, t1); p.expect(','); te = parse_type(p); e = parse_value(p, te); p.expect(',')
        ti = parse_type(p); i = parse_value(p, ti)
        return Instr(res, 'insertelement', (t1, a, te, e, ti, i), line)
    if op == 'extractelement':
        t1 = parse_type(p); a = parse_value(p, t1); p.expect(','); ti = parse_type(p); i = parse_value(p, ti)
        return Instr(res, 'extractelement', (t1, a, ti, i), line)
    if op == 'fence':
        return Instr(None, 'fence', (), line)
    if op == 'atomicrmw':
        while p.peek() in ('volatile',):
            p.next()
        rop = p.next(); pty = parse_type(p); ptr = parse_value(p, pty); p.expect(','); ty = parse_type(p)
        v = parse_value(p, ty)
        return Instr(res, 'atomicrmw', (rop, ptr, ty, v), line)
    if op == 'cmpxchg':
        while p.peek() in ('weak', 'volatile'):
            p.next()
        pty = parse_type(p); ptr = parse_value(p, pty); p.expect(','); ty = parse_type(p); cmp = parse_value(p, ty)
        p.expect(','); ty2 = parse_type(p); new = parse_value(p, ty2)
        return Instr(res, 'cmpxchg', (ptr, ty, cmp, new), line)
    raise NotImplementedError("instr %s" % op)


LINKAGE = {'private', 'internal', 'external', 'unnamed_addr', 'local_unnamed_addr', 'constant', 'global',
           'dso_local', 'hidden', 'weak', 'linkonce_odr', 'thread_local', 'available_externally', 'weak_odr',
           'common', 'extern_weak', 'externally_initialized', 'local_exec', 'initial_exec', '(', ')',
           'localdynamic', 'initialexec', 'localexec', 'protected', 'linkonce', 'dso_preemptable', 'appending'}


class Module:
    """All loaded .ll files together; private/internal symbols are scoped per file."""

    def __init__(s):
        s.types = {}
        s.globals = {}     # name -> (ty, init ast or None, is_external, thread_local)
        s.funcs = {}
        s.decls = set()
        s.aliases = {}
        s.nmod = 0
        s.files = []
        s.bad_globals = []

    def load(s, path):
        s.nmod += 1
        s.files.append(path)
        tag = '$m%d' % s.nmod
        ren = {}
        pat = re.compile(r'^(?:' + IDENT + r' = (?:private|internal)\b|define (?:private|internal) .*?' + IDENT + r'\()')
        with open(path, encoding='utf-8', errors='surrogateescape') as fh:
            lines = fh.read().split('\n')
        for raw in lines:
            if raw.startswith('@') or raw.startswith('define'):
                mm = pat.match(raw)
                if mm:
                    n = mm.group(1) or mm.group(2)
                    ren[n] = (n[:-1] + tag + '"') if n.endswith('"') else n + tag
        cur = None
        body = None
        fre = re.compile(IDENT + r'\(')
        for line in lines:
            if cur is None:
                if not line:
                    continue
                c0 = line[0]
                if c0 in ';!' or line.startswith(('source_filename', 'target ', 'attributes ', 'module asm')):
                    continue
                if c0 == '%':
                    toks = tokenize(line)
                    p = P(toks); name = p.next(); p.expect('='); p.expect('type')
                    if p.peek() == 'opaque':
                        s.types[name] = StructTy([])
                    else:
                        s.types[name] = parse_type(p)
                    continue
                if c0 == '@':
                    try:
                        s.parse_global(line, ren)
                    except Exception as e:      # noqa
                        s.bad_globals.append((line[:100], repr(e)))
                    continue
                if line.startswith('declare'):
                    m = fre.search(line)
                    s.decls.add(m.group(1))
                    continue
                if line.startswith('define'):
                    m = fre.search(line)
                    name = ren.get(m.group(1), m.group(1))
                    toks = tokenize(line[m.end() - 1:], ren)
                    p = P(toks); p.expect('('); params = []
                    if not p.eat(')'):
                        while True:
                            if p.peek() == '...':
                                p.next()
                            else:
                                ty = parse_type(p); skip_attrs(p)
                                nm = p.next() if p.peek() not in (',', ')') else None
                                params.append((ty, nm))
                            if p.eat(')'):
                                break
                            p.expect(',')
                    # return type: token(s) before the name
                    pre = tokenize(line[:m.start()])
                    retty = None
                    try:
                        # last type in the prefix
                        for k in range(len(pre) - 1, 0, -1):
                            try:
                                pp = P(pre[k:]); t = parse_type(pp)
                                if pp.done():
                                    retty = t
                            except Exception:
                                pass
                            if retty is not None and pre[k - 1] not in ('x', '[', '{', ',', '<'):
                                break
                    except Exception:
                        pass
                    cur = Func(name, params, retty, s)
                    cur.ren = ren
                    body = []
                    continue
                continue
            if line == '}':
                cur.body = body
                if cur.name not in s.funcs or True:
                    s.funcs[cur.name] = cur
                cur = None
                continue
            body.append(line)

    def parse_global(s, line, ren):
        toks = tokenize(line, ren)
        toks, _ = split_meta(toks)
        p = P(toks); name = p.next(); p.expect('=')
        if 'alias' in toks[:10]:
            s.aliases[name] = toks[-1]
            return
        ext = False
        tls = False
        while p.peek() in LINKAGE:
            t = p.next()
            if t in ('external', 'extern_weak', 'available_externally'):
                ext = ext or t != 'available_externally'
            if t == 'thread_local':
                tls = True
        if p.peek() == 'addrspace':
            p.next(); p.expect('('); p.next(); p.expect(')')
        ty = parse_type(p)
        init = None
        if not ext and not p.done() and p.peek() != ',':
            init = parse_value(p, ty)
        if name in s.globals and s.globals[name][1] is not None and init is None:
            return
        s.globals[name] = (ty, init, ext, tls)

    def func(s, name):
        name = s.aliases.get(name, name)
        f = s.funcs.get(name)
        if f is not None and f.blocks is None:
            f.parse()
        return f


if __name__ == '__main__':
    import sys, time
    m = Module()
    t0 = time.time()
    for f in sys.argv[1:]:
        m.load(f)
    print(len(m.types), "types", len(m.globals), "globals", len(m.funcs), "funcs", len(m.decls), "decls",
          "bad globals", len(m.bad_globals), "%.2fs" % (time.time() - t0))
    uns = {}
    n = 0
    t0 = time.time()
    for f in list(m.funcs.values()):
        f.parse()
        n += f.ninstr
        for b in f.blocks.values():
            for i in b:
                if i.op == 'unsupported':
                    k = i.line.strip()[:90]
                    uns[k] = uns.get(k, 0) + 1
    print(n, "instructions parsed in %.2fs" % (time.time() - t0), "unsupported kinds:", len(uns))
    for k, v in sorted(uns.items(), key=lambda kv: -kv[1])[:40]:
        print("  ", v, k)
    for b in m.bad_globals[:10]:
        print("bad global", b)
