"""C17 (Label text round trips) and the print/parse half of C15 on the build-std IR:
the real `Label::from_str` / `Display` (and `Hex::print` / `from_str`) are executed
together with the IR of core::str, core::num, core::fmt and alloc::string.

A text is a buffer of concrete byte length whose characters are symbolic: the
*shape* (UTF-8 length class 1..4 of every character) is fixed per run, the
characters themselves range over ALL scalar values of that class except U+0020."""
import glob
import itertools
import os
import time

import z3

from . import harness as H
from .vm import VM, Inconclusive, Terminal, cells_to_val, cell_term, cell_eq, to_bv

ALPHA = 0x3B1


def build_bs(extra=False):
    tdir = os.path.join(H.BUILD, 'bs')
    src = H.crate_dir('bs')
    env = dict(os.environ, CARGO_TARGET_DIR=tdir, RUSTFLAGS=H.RUSTFLAGS, CARGO_NET_OFFLINE='true')
    env.pop('RUSTUP_TOOLCHAIN', None)
    lock = os.path.join(src, 'Cargo.lock')
    if not os.path.exists(lock):
        import shutil
        shutil.copy(os.path.join(H.REPO, 'Cargo.lock'), lock)
    t0 = time.time()
    r = H.sh(['cargo', '+nightly', 'build', '--release', '--offline', '-Zbuild-std=core,alloc,std,panic_abort',
              '--target', 'x86_64-unknown-linux-gnu'], cwd=src, env=env)
    if r.returncode != 0:
        raise H.Broken("build-std driver build failed:\n" + r.stderr[-3000:])
    deps = os.path.join(tdir, 'x86_64-unknown-linux-gnu', 'release', 'deps')
    ll = []
    for n in ('bs', 'sodg', 'core', 'alloc', 'std', 'anyhow', 'hex'):
        fs = glob.glob(os.path.join(deps, n + '-*.ll'))
        if not fs:
            raise H.Broken("no IR for " + n)
        ll.append(max(fs, key=os.path.getmtime))
    if extra:
        names = ('bincode', 'serde', 'emap', 'micromap', 'microstack', 'hashbrown', 'xml_builder')
        if extra == 'script':
            names += ('regex', 'regex_automata', 'regex_syntax', 'aho_corasick', 'memchr', 'log')
        for n in names:
            fs = sorted(glob.glob(os.path.join(deps, n + '-*.ll')))
            if not fs:
                raise H.Broken("no IR for " + n)
            ll += fs
    return dict(ll=ll, seconds=time.time() - t0, profile='dev-like (nightly, -Zbuild-std)')


# ------------------------------------------------------------------ symbolic characters

class Ch:
    """one character of UTF-8 length class k with symbolic bytes"""

    def __init__(s, name, k):
        s.k = k
        s.b = [z3.BitVec('%s.b%d' % (name, i), 8) for i in range(k)]
        b = [z3.ZeroExt(24, x) for x in s.b]
        if k == 1:
            s.cp = b[0]
            s.wf = z3.And(z3.ULT(s.b[0], 0x80), s.b[0] != 0x20)
        elif k == 2:
            s.cp = ((b[0] & 0x1F) << 6) | (b[1] & 0x3F)
            s.wf = z3.And(z3.UGE(s.b[0], 0xC2), z3.ULE(s.b[0], 0xDF), _cont(s.b[1]))
        elif k == 3:
            s.cp = ((b[0] & 0x0F) << 12) | ((b[1] & 0x3F) << 6) | (b[2] & 0x3F)
            s.wf = z3.And(z3.UGE(s.b[0], 0xE0), z3.ULE(s.b[0], 0xEF), _cont(s.b[1]), _cont(s.b[2]),
                          z3.Implies(s.b[0] == 0xE0, z3.UGE(s.b[1], 0xA0)),
                          z3.Implies(s.b[0] == 0xED, z3.ULE(s.b[1], 0x9F)))
        else:
            s.cp = ((b[0] & 0x07) << 18) | ((b[1] & 0x3F) << 12) | ((b[2] & 0x3F) << 6) | (b[3] & 0x3F)
            s.wf = z3.And(z3.UGE(s.b[0], 0xF0), z3.ULE(s.b[0], 0xF4), _cont(s.b[1]), _cont(s.b[2]), _cont(s.b[3]),
                          z3.Implies(s.b[0] == 0xF0, z3.UGE(s.b[1], 0x90)),
                          z3.Implies(s.b[0] == 0xF4, z3.ULE(s.b[1], 0x8F)))
        s.is_alpha = z3.And(s.b[0] == 0xCE, s.b[1] == 0xB1) if k == 2 else z3.BoolVal(False)
        s.is_digit = z3.And(z3.UGE(s.b[0], 0x30), z3.ULE(s.b[0], 0x39)) if k == 1 else z3.BoolVal(False)
        s.is_plus = (s.b[0] == 0x2B) if k == 1 else z3.BoolVal(False)
        s.digit = (z3.ZeroExt(56, s.b[0]) - 0x30) if k == 1 else None

    def concrete(s, model):
        return [model.eval(x, model_completion=True).as_long() for x in s.b]


def _cont(b):
    return z3.And(z3.UGE(b, 0x80), z3.ULE(b, 0xBF))


class TW:
    """module + VM for the text functions"""
    _inst = {}

    def __init__(s, ll):
        s.mod = H.module(ll)
        s.vm = VM(s.mod, dict(merge_calls=(), max_fork=64, max_cands=256))

    @classmethod
    def get(cls, ll):
        k = tuple(ll)
        if k not in cls._inst:
            cls._inst[k] = cls(ll)
        return cls._inst[k]

    def text(s, st, name, shape):
        chars = [Ch('%s%d' % (name, i), k) for i, k in enumerate(shape)]
        L = sum(shape)
        buf = st.mem.alloc(max(L, 1), 1, 'heap', name='text.' + name).base
        cells = []
        for c in chars:
            cells += [(b, 0) for b in c.b]
            st.assume(c.wf)
        if cells:
            st.mem.write_cells(buf, cells)
        return buf, L, chars

    def view_label(s, st, addr):
        """[(condition, variant, [words])] by running the driver's label_view"""
        vm = s.vm
        words = st.mem.alloc(64, 8, 'heap', name='scratch.words').base
        res = []
        for o in vm.run(st, '@label_view', [addr, words]):
            if o.kind != 'ret':
                raise Inconclusive("label_view: %r" % (o,))
            cond = z3.And(*o.st.pc[len(st.pc):]) if len(o.st.pc) > len(st.pc) else z3.BoolVal(True)
            v = o.value
            if not isinstance(v, int):
                v = vm.concretize(o.st, v)
            res.append((cond, v, [to_bv(cells_to_val(o.st.mem.read_cells(words + 8 * i, 8), o.st), 64) for i in range(8)]))
        return res

    def string_of(s, st, saddr):
        """(pointer, length) of a String by running string_view"""
        vm = s.vm
        pp = st.mem.alloc(8, 8, 'heap', name='scratch.pp').base
        outs = vm.run(st, '@string_view', [saddr, pp])
        if len(outs) != 1 or outs[0].kind != 'ret':
            raise Inconclusive("string_view: %r" % (outs,))
        o = outs[0]
        return o.st, cells_to_val(o.st.mem.read_cells(pp, 8)), o.value


def shapes_all(kmax, kmin=1):
    for k in range(kmin, kmax + 1):
        for sh in itertools.product((1, 2, 3, 4), repeat=k):
            yield sh


def shapes_edge(kmin, kmax):
    """longer texts: uniform class, and ASCII with one multi-byte character first or last"""
    for k in range(kmin, kmax + 1):
        for c in (1, 2, 3, 4):
            yield (c,) * k
        for c in (2, 3, 4):
            yield (c,) + (1,) * (k - 1)
            yield (1,) * (k - 1) + (c,)


def shapes_numeric(tmax):
    """the alpha sign (a 2-byte character, constrained to U+03B1 by the obligation) followed by ASCII"""
    for t in range(0, tmax + 1):
        yield (2,) + (1,) * t
    for c in (2, 3, 4):
        yield (2, c)
        yield (2, 1, c)


def _report(env, kind, what, model, chars=None, label=None, detail=None):
    job = {'text': True}
    if chars is not None:
        job['calls'] = [{'op': 'parse', 'bytes': [b for c in chars for b in c.concrete(model)]}]
    else:
        job['calls'] = [{'op': 'print', 'label': label}]
    env.violation(kind=kind, clauses=[what], props=['C17'], call=job['calls'][0], job=job, detail=detail)


# ====================================================================== parse, then print
def ob_label_parse(env, shapes, numeric=False, fixed=None, only_malformed=False):
    """fixed: {character position: byte} pins some (ASCII) characters; only_malformed: restrict a numeric
    text to the malformed ones (decimal arithmetic on many symbolic digits does not finish)"""
    tw = TW.get(env.ll)
    vm = tw.vm
    n_paths = 0
    q0, t0 = vm.solver.queries, vm.solver.time
    for shape in shapes:
        shape = tuple(shape)
        st = vm.new_state()
        buf, L, chars = tw.text(st, 't', shape)
        k = len(chars)
        out = st.mem.alloc(32, 8, 'heap', name='out.label').base
        first_alpha = chars[0].is_alpha if k else z3.BoolVal(False)
        for pos, byte in (fixed or {}).items():
            if int(pos) < k:
                st.assume(chars[int(pos)].b[0] == byte)
        if numeric:
            st.assume(first_alpha)
            if only_malformed and k > 1:
                t_ = chars[1:]
                da = z3.And(*[c.is_digit for c in t_])
                pf = z3.And(t_[0].is_plus, *[c.is_digit for c in t_[1:]]) if len(t_) >= 2 else z3.BoolVal(False)
                st.assume(z3.Not(z3.Or(da, pf)))
        elif k and shape[0] == 2:
            st.assume(z3.Not(first_alpha))      # the alpha-prefixed texts are the numeric family's
        outs = vm.run(st, '@label_parse', [buf, L, out])
        n_paths += len(outs)
        tail = chars[1:]
        if numeric:
            digits_all = z3.And(*[c.is_digit for c in tail]) if tail else z3.BoolVal(True)
            lead_zero = z3.And(digits_all, tail[0].b[0] == 0x30) if len(tail) >= 2 and tail[0].k == 1 else z3.BoolVal(False)
            plus_form = z3.And(tail[0].is_plus, *[c.is_digit for c in tail[1:]]) if len(tail) >= 2 else z3.BoolVal(False)
            canonical = z3.And(digits_all, z3.Not(lead_zero)) if tail else z3.BoolVal(False)
            must_err = z3.Not(z3.Or(digits_all, plus_form)) if tail else z3.BoolVal(True)
            value = z3.BitVecVal(0, 64)
            for c in tail:
                if c.k == 1:
                    value = value * 10 + c.digit
        for o in outs:
            if o.kind != 'ret':
                m = vm.get_model(o.st)
                if m is not None:
                    _report(env, o.kind, 'from_str ends in %s' % o.kind, m, chars, detail=o.detail)
                continue
            ok = o.value
            okb = ok if isinstance(ok, z3.BoolRef) else ((to_bv(ok, 8) & 1) == 1)
            post = o.st
            # --- which texts must be accepted / rejected
            if numeric:
                bad_rej = z3.And(canonical, z3.Not(okb)) if len(tail) <= 19 else z3.BoolVal(False)
                bad_acc = z3.And(must_err, okb)
            elif k == 0:
                bad_rej = bad_acc = z3.BoolVal(False)
            elif k <= 8:
                bad_rej = z3.Not(okb); bad_acc = z3.BoolVal(False)
            else:
                bad_rej = z3.BoolVal(False); bad_acc = okb
            sat, m = vm.solver.check(post.pc, bad_rej)
            if sat:
                _report(env, 'clause', 'a well-formed text is rejected', m, chars)
                continue
            sat, m = vm.solver.check(post.pc, bad_acc)
            if sat:
                _report(env, 'clause', 'a text that must be rejected (more than 8 characters / malformed index) is accepted', m, chars)
                continue
            if not vm.feasible(post, okb):
                continue
            in_domain = canonical if numeric else z3.BoolVal(0 < k <= 8)
            if z3.is_false(z3.simplify(in_domain)) or not vm.feasible(post, z3.And(okb, in_domain)):
                continue
            s2 = post.fork()
            s2.assume(okb); s2.assume(in_domain)
            # --- the label value
            for cond, variant, words in tw.view_label(s2, out):
                if numeric:
                    want = z3.And(variant == 1, words[0] == value) if variant == 1 else z3.BoolVal(False)
                elif k == 1:
                    want = z3.And(words[0] == z3.ZeroExt(32, chars[0].cp)) if variant == 0 else z3.BoolVal(False)
                else:
                    want = z3.And(*[words[i] == (z3.ZeroExt(32, chars[i].cp) if i < k else 0x20) for i in range(8)]) if variant == 2 else z3.BoolVal(False)
                sat, m = vm.solver.check(s2.pc, cond, z3.Not(want))
                if sat:
                    _report(env, 'clause', 'the parsed label is not the %s the text denotes' % ('index' if numeric else ('single character' if k == 1 else 'name')), m, chars)
                    break
            else:
                # --- print it back
                sa = s2.mem.alloc(24, 8, 'heap', name='out.string').base
                for o2 in vm.run(s2, '@label_print', [out, sa]):
                    n_paths += 1
                    if o2.kind != 'ret':
                        m = vm.get_model(o2.st)
                        if m is not None:
                            _report(env, o2.kind, 'Display ends in %s' % o2.kind, m, chars, detail=o2.detail)
                        continue
                    s3, ptr, ln = tw.string_of(o2.st, sa)
                    neq = [to_bv(ln, 64) != L]
                    if isinstance(ln, int) and ln == L and L:
                        got = vm.load_bytes(s3, ptr, L)
                        txt = s3.mem.read_cells(buf, L)
                        for x, y in zip(got, txt):
                            e = cell_eq(x, y)
                            if e:
                                continue
                            neq.append(z3.BoolVal(True) if x is None else cell_term(x) != cell_term(y))
                    sat, m = vm.solver.check(s3.pc, z3.Or(*neq))
                    if sat:
                        _report(env, 'clause', 'printing the parsed label does not give the text back', m, chars)
        env.cover('shapes with an accepted text', lambda: any(o.kind == 'ret' for o in outs))
    env.res['paths'] += n_paths
    env.res['queries'] += vm.solver.queries - q0
    env.res['solver_s'] += vm.solver.time - t0
    env.res['funcs'] = sorted(vm.stats['funcs'])
    env.res['externs'] = sorted(vm.stats['ext_calls'])
    env.sample({'family': 'numeric' if numeric else 'names', 'shapes (UTF-8 length class per character)': [list(s) for s in list(shapes)[:4]],
                'n_shapes': len(list(shapes)), 'paths': n_paths})


# ====================================================================== print, then parse
def ob_label_print(env, kind, shapes=(), bits=64, high=0):
    """canonical label values: Greek(c), Str of 2..8 characters, Alpha(n): parse(print(l)) == l"""
    tw = TW.get(env.ll)
    vm = tw.vm
    n_paths = 0
    q0, t0 = vm.solver.queries, vm.solver.time
    todo = []
    if kind == 'alpha':
        todo = [None]
    else:
        todo = [tuple(s) for s in shapes]
    for shape in todo:
        st = vm.new_state()
        lab = st.mem.alloc(32, 8, 'heap', name='label').base
        if kind == 'alpha':
            n = z3.BitVec('n', bits)
            if bits < 64:
                n = z3.Concat(z3.BitVecVal(high, 64 - bits), n)
            outs0 = vm.run(st, '@label_alpha', [lab, n])
            desc = lambda m: {'a': m.eval(n, model_completion=True).as_long()}
        else:
            chars = [Ch('c%d' % i, k) for i, k in enumerate(shape)]
            for c in chars:
                st.assume(c.wf)
            st.assume(z3.Not(chars[0].is_alpha))
            if kind == 'greek':
                outs0 = vm.run(st, '@label_greek', [lab, chars[0].cp])
                desc = lambda m, chars=chars: {'g': m.eval(chars[0].cp, model_completion=True).as_long()}
            else:
                arr = st.mem.alloc(32, 4, 'heap', name='chars').base
                for i in range(8):
                    st.mem.write_cells(arr + 4 * i, [(chars[i].cp, j) for j in range(4)] if i < len(chars) else [0x20, 0, 0, 0])
                outs0 = vm.run(st, '@label_str', [lab, arr])
                desc = lambda m, chars=chars: {'s': [m.eval(c.cp, model_completion=True).as_long() for c in chars] + [0x20] * (8 - len(chars))}
        for o0 in outs0:
            if o0.kind != 'ret':
                raise Inconclusive("label constructor: %r" % (o0,))
            s1 = o0.st
            sa = s1.mem.alloc(24, 8, 'heap', name='out.string').base
            for o1 in vm.run(s1, '@label_print', [lab, sa]):
                n_paths += 1
                if o1.kind != 'ret':
                    m = vm.get_model(o1.st)
                    if m is not None:
                        _report(env, o1.kind, 'Display ends in %s' % o1.kind, m, label=desc(m), detail=o1.detail)
                    continue
                s2, ptr, ln = tw.string_of(o1.st, sa)
                ln = vm.concretize(s2, ln) if not isinstance(ln, int) else ln
                out = s2.mem.alloc(32, 8, 'heap', name='out.label').base
                for o2 in vm.run(s2, '@label_parse', [ptr, ln, out]):
                    n_paths += 1
                    if o2.kind != 'ret':
                        m = vm.get_model(o2.st)
                        if m is not None:
                            _report(env, o2.kind, 'from_str of a printed label ends in %s' % o2.kind, m, label=desc(m), detail=o2.detail)
                        continue
                    ok = o2.value
                    okb = ok if isinstance(ok, z3.BoolRef) else ((to_bv(ok, 8) & 1) == 1)
                    sat, m = vm.solver.check(o2.st.pc, z3.Not(okb))
                    if sat:
                        _report(env, 'clause', 'the printed form of a canonical label is rejected by from_str', m, label=desc(m))
                        continue
                    for o3 in vm.run(o2.st, '@label_eq', [lab, out]):
                        n_paths += 1
                        if o3.kind != 'ret':
                            raise Inconclusive("label_eq: %r" % (o3,))
                        eq = o3.value
                        eqb = eq if isinstance(eq, z3.BoolRef) else ((to_bv(eq, 8) & 1) == 1)
                        sat, m = vm.solver.check(o3.st.pc, z3.Not(eqb))
                        if sat:
                            _report(env, 'clause', 'parsing the printed form gives a different label', m, label=desc(m))
        env.cover('labels printed and parsed', True)
    env.res['paths'] += n_paths
    env.res['queries'] += vm.solver.queries - q0
    env.res['solver_s'] += vm.solver.time - t0
    env.res['funcs'] = sorted(vm.stats['funcs'])
    env.res['externs'] = sorted(vm.stats['ext_calls'])
    env.sample({'family': 'print-then-parse ' + kind, 'shapes': [list(s) for s in todo[:4] if s], 'n_shapes': len(todo), 'paths': n_paths})


# ====================================================================== native judgement
def judge_text(job, lines, crashed, stderr=''):
    """reference semantics of the property on concrete texts / labels, applied to the native run"""
    out = []
    for c, r in zip(job['calls'], lines + [None] * len(job['calls'])):
        if r is None:
            m = [l for l in stderr.splitlines() if 'panicked' in l]
            out.append("%s panicked: %s" % (c, (m[-1] if m else stderr[-200:]).strip()))
            break
        if c['op'] == 'parse':
            try:
                txt = bytes(c['bytes']).decode('utf-8')
            except UnicodeDecodeError:
                continue
            if not txt or ' ' in txt:
                continue
            if txt[0] == '\u03b1':
                tail = txt[1:]
                if tail.isascii() and tail.isdigit() and (len(tail) == 1 or tail[0] != '0') and int(tail) < 2 ** 64:
                    exp = ('ok', {'a': int(tail)})
                elif tail and ((tail.isascii() and tail.isdigit()) or (tail[0] == '+' and tail[1:].isascii() and tail[1:].isdigit())):
                    exp = None          # leading zeros / plus sign: neither required nor forbidden
                else:
                    exp = ('err', None)
            elif len(txt) == 1:
                exp = ('ok', {'g': ord(txt)})
            elif len(txt) <= 8:
                exp = ('ok', {'s': [ord(ch) for ch in txt] + [0x20] * (8 - len(txt))})
            else:
                exp = ('err', None)
            if exp is None:
                continue
            if exp[0] == 'err':
                if r['ok']:
                    out.append("text %r must be rejected but parses to %r" % (txt, r['label']))
            elif not r['ok']:
                out.append("text %r is rejected (%s)" % (txt, r.get('error')))
            else:
                if r['label'] != exp[1]:
                    out.append("text %r parses to %r, expected %r" % (txt, r['label'], exp[1]))
                elif bytes(r['printed']).decode('utf-8', 'replace') != txt:
                    out.append("text %r prints back as %r" % (txt, bytes(r['printed']).decode('utf-8', 'replace')))
        elif c['op'] == 'print':
            if not r['ok']:
                out.append("label %r prints as %r which from_str rejects (%s)" % (c['label'], bytes(r['printed']).decode('utf-8', 'replace'), r.get('error')))
            elif not r['equal']:
                out.append("label %r prints as %r which parses to a different label %r" % (c['label'], bytes(r['printed']).decode('utf-8', 'replace'), r['label']))
        elif c['op'] == 'hex_print':
            if not r['ok']:
                out.append("hex %r prints as %r which from_str rejects (%s)" % (c['d'], bytes(r['printed']).decode(), r.get('error')))
            elif not r['equal'] or list(r['bytes']) != list(c['d']['data']):
                out.append("hex %r prints as %r which parses to %r" % (c['d'], bytes(r['printed']).decode(), r['bytes']))
    return out, {}


# ====================================================================== Hex::print / Hex::from_str (C15)
def ob_hex_print(env, cases):
    """from_str(print(h)) == h: cases = [(length, inline?, positions of symbolic bytes)]; the other bytes
    are fixed (0xA5 ^ index).  UpperHex formatting is joined per call (two paths per byte otherwise)."""
    tw = TW.get(env.ll)
    vm = tw.vm
    vm.opts['merge_calls'] = ('8UpperHex3fmt',)
    n_paths = 0
    q0, t0 = vm.solver.queries, vm.solver.time
    try:
        for (L, inline, sympos) in cases:
            st = vm.new_state()
            src = st.mem.alloc(16, 1, 'heap', name='src').base
            bs = [z3.BitVec('b%d' % i, 8) if i in sympos else ((0xA5 ^ (17 * i)) & 0xFF) for i in range(L)]
            pad = [z3.BitVec('pad%d' % i, 8) for i in range(L, 8)] if inline else []
            cells = [(b, 0) if not isinstance(b, int) else b for b in bs] + [(p, 0) for p in pad]
            cells += [0] * (16 - len(cells))
            st.mem.write_cells(src, cells)
            hx = st.mem.alloc(24, 8, 'heap', name='hex').base
            o = vm.run(st, '@hex_inline' if inline else '@hex_vector', [hx, src, L])
            if len(o) != 1 or o[0].kind != 'ret':
                raise Inconclusive("hex constructor: %r" % (o,))
            s1 = o[0].st
            sa = s1.mem.alloc(24, 8, 'heap', name='out.string').base

            def desc(m):
                ev = lambda t: t if isinstance(t, int) else m.eval(t, model_completion=True).as_long()
                return {'inline': bool(inline), 'data': [ev(b) for b in bs], 'pad': [ev(p) for p in pad]}
            for o1 in vm.run(s1, '@hex_print', [hx, sa]):
                n_paths += 1
                if o1.kind != 'ret':
                    m = vm.get_model(o1.st)
                    if m is not None:
                        env.violation(kind=o1.kind, clauses=['print ends in %s' % o1.kind], props=['C15'], call={'op': 'hex_print', 'd': desc(m)},
                                      job={'text': True, 'calls': [{'op': 'hex_print', 'd': desc(m)}]}, detail=o1.detail)
                    continue
                s2, ptr, ln = tw.string_of(o1.st, sa)
                ln = vm.concretize(s2, ln) if not isinstance(ln, int) else ln
                want_len = 2 if L == 0 else 3 * L - 1
                out = s2.mem.alloc(24, 8, 'heap', name='out.hex').base
                for o2 in vm.run(s2, '@hex_parse', [ptr, ln, out]):
                    n_paths += 1
                    bad = None
                    if o2.kind != 'ret':
                        bad = 'from_str of a printed Hex ends in %s' % o2.kind
                        s3 = o2.st
                        cond = z3.BoolVal(True)
                    else:
                        ok = o2.value
                        okb = ok if isinstance(ok, z3.BoolRef) else ((to_bv(ok, 8) & 1) == 1)
                        s3 = o2.st
                        cond = z3.Not(okb)
                        bad = 'the printed form is rejected by from_str'
                        if not vm.solver.check(s3.pc, cond, want_model=False)[0]:
                            # accepted: compare byte strings through the real Hex::bytes
                            bad = 'parsing the printed form gives different bytes'
                            pp = s3.mem.alloc(8, 8, 'heap', name='scratch.pp').base
                            diffs = [z3.BoolVal(ln != want_len)]
                            for o3 in vm.run(s3, '@hex_view', [out, pp]):
                                n_paths += 1
                                if o3.kind != 'ret':
                                    raise Inconclusive("hex_view: %r" % (o3,))
                                n = to_bv(o3.value, 64)
                                p3 = cells_to_val(o3.st.mem.read_cells(pp, 8))
                                d = [n != L]
                                if vm.feasible(o3.st, n == L):
                                    for i in range(L):
                                        c = vm.load_bytes(o3.st, p3 + i, 1)[0]
                                        d.append(z3.BoolVal(True) if c is None else cell_term(c) != to_bv(bs[i], 8))
                                sat, m = vm.solver.check(o3.st.pc, z3.Or(*d))
                                if sat:
                                    env.violation(kind='clause', clauses=[bad], props=['C15'], call={'op': 'hex_print', 'd': desc(m)},
                                                  job={'text': True, 'calls': [{'op': 'hex_print', 'd': desc(m)}]})
                            continue
                    sat, m = vm.solver.check(s3.pc, cond)
                    if sat:
                        env.violation(kind='clause', clauses=[bad], props=['C15'], call={'op': 'hex_print', 'd': desc(m)},
                                      job={'text': True, 'calls': [{'op': 'hex_print', 'd': desc(m)}]})
            env.cover('hex printed and parsed', True)
    finally:
        vm.opts['merge_calls'] = ()
    env.res['paths'] += n_paths
    env.res['queries'] += vm.solver.queries - q0
    env.res['solver_s'] += vm.solver.time - t0
    env.res['funcs'] = sorted(vm.stats['funcs'])
    env.res['externs'] = sorted(vm.stats['ext_calls'])
    env.sample({'family': 'Hex print-then-parse', 'cases (length, inline, symbolic byte positions)': [list(map(lambda x: list(x) if isinstance(x, (tuple, set, frozenset)) else x, c)) for c in cases[:4]],
                'n_cases': len(cases), 'paths': n_paths})
