"""Executable reference model of the graph semantics the properties describe
(C01-C06), over plain data.  Used to judge native replays: a counterexample the
solver produced is reported only if the real code, run natively from the same
pre-state, departs from this model (or panics within the limits, or leaves a
state that breaks the representation invariant)."""
import copy
import json

NSLOT = 16


def lkey(label):
    return json.dumps(label, sort_keys=True)


class Limit(Exception):
    pass


class Ref:
    def __init__(s, cap, N):
        s.cap = cap
        s.N = N
        s.present = set()
        s.group = {}        # v -> group id (only grouped vertices)
        s.unread = set()
        s.data = {}         # v -> list of bytes (only vertices with data)
        s.edges = {}        # v -> list of [label, to] (kept for absent ids: stale until re-added)
        s.pos = 0
        s.issued_upto = 0
        s._next_gid = 100
        s.listed = {}

    @classmethod
    def from_snapshot(cls, snap, N):
        s = cls(len(snap['vertices']), N)
        for v, x in enumerate(snap['vertices']):
            if x is None:
                continue
            s.edges[v] = [list(e) for e in x['edges']]
            if x['persistence'] != 0:
                s.data[v] = list(x['data'])
            if x['branch'] != 0:
                s.present.add(v)
                if x['branch'] >= 2:
                    s.group[v] = x['branch']
                if x['persistence'] == 1:
                    s.unread.add(v)
        s.pos = snap['next_v']
        # a member list may be longer than the tags say in an over-approximated pre-state (C07's 17th member)
        s.listed = {b: len(m) for b, m in enumerate(snap['branches'])}
        return s

    def members(s, g):
        return {v for v, gg in s.group.items() if gg == g}

    def groups(s):
        return set(s.group.values())

    def call(s, c):
        """apply one call; returns the expected result (JSON-like), raises Limit when the call
        exceeds a capacity limit or a precondition (behaviour then unspecified, except C07)"""
        op = c['op']
        if op == 'add':
            v = c['v']
            if v >= s.cap:
                raise Limit('id >= capacity')
            if v not in s.present:
                s.present.add(v)
                s.group.pop(v, None)
                s.unread.discard(v)
                s.data.pop(v, None)
                s.edges[v] = []
            return None
        if op == 'bind':
            v1, v2, a = c['v1'], c['v2'], c['a']
            if v1 >= s.cap or v2 >= s.cap:
                raise Limit('id >= capacity')
            if v1 not in s.present or v2 not in s.present or v1 == v2:
                raise Limit('precondition')
            es = s.edges.setdefault(v1, [])
            for e in es:
                if lkey(e[0]) == lkey(a):
                    e[1] = v2
                    break
            else:
                if len(es) >= s.N:
                    raise Limit('more than N labels')
                es.append([a, v2])
            g1, g2 = s.group.get(v1), s.group.get(v2)
            if g1 is None and g2 is None:
                if len(s.groups()) >= NSLOT - 2:
                    raise Limit('more than 14 groups')
                s._next_gid += 1
                s.group[v1] = s.group[v2] = s._next_gid
            elif g1 is None:
                if max(len(s.members(g2)), s.listed.get(g2, 0)) >= NSLOT:
                    raise Limit('more than 16 members')
                s.group[v1] = g2
            elif g2 is None:
                if max(len(s.members(g1)), s.listed.get(g1, 0)) >= NSLOT:
                    raise Limit('more than 16 members')
                s.group[v2] = g1
            return None
        if op == 'put':
            v = c['v']
            if v >= s.cap:
                raise Limit('id >= capacity')
            if v not in s.present:
                raise Limit('precondition')
            s.data[v] = list(c['d']['data'])
            s.unread.add(v)
            return None
        if op == 'data':
            v = c['v']
            if v >= s.cap:
                raise Limit('id >= capacity')
            if v not in s.present:
                raise Limit('precondition')
            if v not in s.data:
                return 'none'
            d = list(s.data[v])
            if v in s.unread:
                s.unread.discard(v)
                g = s.group.get(v)
                if g is not None and not (s.members(g) & s.unread):
                    for m in s.members(g):
                        s.present.discard(m)
                        del s.group[m]
            return {'some': d}
        if op == 'kid':
            v = c['v']
            if v >= s.cap:
                raise Limit('id >= capacity')
            if v not in s.present:
                raise Limit('precondition')
            for a, to in s.edges.get(v, []):
                if lkey(a) == lkey(c['a']):
                    return {'some': to}
            return 'none'
        if op == 'kids':
            v = c['v']
            if v >= s.cap:
                raise Limit('id >= capacity')
            if v not in s.present:
                raise Limit('precondition')
            return [[a, to] for a, to in s.edges.get(v, [])]
        if op == 'next_id':
            cand = [i for i in range(s.pos, s.cap) if i not in s.present]
            if not cand:
                raise Limit('no absent id at or above the allocator position')
            return {'fresh': True}
        if op == 'len':
            return len(s.present)
        if op == 'is_empty':
            return not s.present
        if op == 'keys':
            return sorted(s.present)
        if op in ('clone', 'save_load', 'save_cut_load'):
            return None
        raise ValueError(op)


def check_inv(snap):
    """representation invariant on a plain snapshot; returns a list of broken clauses"""
    bad = []
    vs = snap['vertices']
    cap = len(vs)
    for b in range(2, NSLOT):
        mem = snap['branches'][b]
        if len(set(mem)) != len(mem):
            bad.append("slot %d lists a member twice: %r" % (b, mem))
        for m in mem:
            if m >= cap or vs[m] is None or vs[m]['branch'] != b:
                bad.append("slot %d lists %d whose tag is %r" % (b, m, None if m >= cap or vs[m] is None else vs[m]['branch']))
        unread = sum(1 for m in mem if m < cap and vs[m] is not None and vs[m]['persistence'] == 1)
        if snap['stores'][b] != unread:
            bad.append("counter of slot %d is %d, recount of unread members gives %d" % (b, snap['stores'][b], unread))
    for v, x in enumerate(vs):
        if x is None:
            continue
        if x['branch'] >= NSLOT:
            bad.append("vertex %d has tag %d" % (v, x['branch']))
        elif x['branch'] >= 2 and v not in snap['branches'][x['branch']]:
            bad.append("vertex %d has tag %d but is not listed in that slot" % (v, x['branch']))
        ks = [lkey(e[0]) for e in x['edges']]
        if len(set(ks)) != len(ks):
            bad.append("vertex %d has a label twice" % v)
    for b in (0, 1):
        if snap['branches'][b] != [0]:
            bad.append("reserved slot %d holds %r instead of the sentinel [0]" % (b, snap['branches'][b]))
    if snap['next_v'] > cap:
        bad.append("allocator position %d above capacity" % snap['next_v'])
    return bad


def compare(ref, snap, what=('present', 'groups', 'data', 'edges')):
    """differences between the model state and a native snapshot (list of strings)"""
    out = []
    vs = snap['vertices']
    present = {v for v, x in enumerate(vs) if x is not None and x['branch'] != 0}
    if 'present' in what and present != ref.present:
        out.append("present vertices: model %r, real %r" % (sorted(ref.present), sorted(present)))
    if 'groups' in what:
        for v in sorted(present & ref.present):
            for u in sorted(present & ref.present):
                if u < v:
                    same_real = vs[v]['branch'] >= 2 and vs[v]['branch'] == vs[u]['branch']
                    same_ref = v in ref.group and ref.group.get(v) == ref.group.get(u)
                    if same_real != same_ref:
                        out.append("vertices %d and %d: model says %s group, real says %s" % (
                            u, v, 'same' if same_ref else 'different', 'same' if same_real else 'different'))
            if (vs[v]['branch'] >= 2) != (v in ref.group):
                out.append("vertex %d: model %s, real tag %d" % (v, 'grouped' if v in ref.group else 'ungrouped', vs[v]['branch']))
    if 'data' in what:
        for v in sorted(present & ref.present):
            has = vs[v]['persistence'] != 0
            if has != (v in ref.data):
                out.append("vertex %d: model %s data, real persistence %d" % (v, 'has' if v in ref.data else 'has no', vs[v]['persistence']))
            elif has:
                if list(vs[v]['data']) != list(ref.data[v]):
                    out.append("vertex %d: data bytes differ: model %r real %r" % (v, ref.data[v], vs[v]['data']))
                if (vs[v]['persistence'] == 1) != (v in ref.unread):
                    out.append("vertex %d: model %s, real persistence %d" % (v, 'unread' if v in ref.unread else 'read', vs[v]['persistence']))
    if 'edges' in what:
        for v in sorted(present & ref.present):
            re = {lkey(a): to for a, to in vs[v]['edges']}
            me = {lkey(a): to for a, to in ref.edges.get(v, [])}
            if re != me or len(vs[v]['edges']) != len(ref.edges.get(v, [])):
                out.append("vertex %d: edges differ: model %r real %r" % (v, ref.edges.get(v, []), vs[v]['edges']))
    return out


def _norm(sn):
    # what an absent slot still holds is not observable; reserved counters are unconstrained
    vs = []
    for x in sn['vertices']:
        if x is None:
            vs.append(None)
        elif x['branch'] == 0:
            vs.append({'branch': 0})
        else:
            vs.append({'branch': x['branch'], 'persistence': x['persistence'], 'data': (x['data'] if x['persistence'] else []), 'edges': x['edges']})
    return {'vertices': vs, 'branches': sn['branches'], 'stores': sn['stores'][2:], 'next_v': sn['next_v']}


def judge(job, lines, crashed, stderr=''):
    """Compare a native replay (lines printed by the replay binary) with the model.
    Returns (violations: list of str, info)."""
    N = job['n']
    if not lines:
        return ["native replay produced no output: " + stderr[-300:]], {}
    snap0 = lines[0]['snap']
    ref = Ref.from_snapshot(snap0, N)
    out = []
    pre_inv = check_inv(snap0)
    info = {'pre_inv': pre_inv}
    prev_pos = snap0['next_v']
    for k, c in enumerate(job['calls']):
        try:
            exp = ref.call(c)
            within = True
        except Limit as e:
            within = False
            info['limit'] = str(e)
        if k + 1 >= len(lines):
            if within:
                m = [l for l in stderr.splitlines() if 'panicked' in l]
                out.append("call %d %s panicked within the limits: %s" % (k + 1, json.dumps(c), (m[-1] if m else stderr[-200:]).strip()))
            break
        if not within:
            out_of = info.get('limit')
            if out_of in ('id >= capacity', 'more than N labels', 'more than 16 members'):
                out.append("call %d %s exceeds a limit (%s) but returned instead of panicking" % (k + 1, json.dumps(c), out_of))
            break
        got = lines[k + 1]['ret']
        snap = lines[k + 1]['snap']
        if c['op'] == 'next_id':
            vs = lines[k]['snap']['vertices']
            if got >= len(vs) or vs[got]['branch'] != 0 or got < prev_pos or snap['next_v'] <= got:
                out.append("call %d next_id returned %r: not fresh (allocator position was %d, now %d)" % (k + 1, got, prev_pos, snap['next_v']))
            ref.pos = snap['next_v']
        elif c['op'] == 'data':
            g2 = got if got == 'none' else {'some': got['some']}
            if g2 != exp:
                out.append("call %d %s returned %r, model says %r" % (k + 1, json.dumps(c), got, exp))
        elif c['op'] == 'kids':
            if {lkey(a): t for a, t in got} != {lkey(a): t for a, t in exp} or len(got) != len(exp):
                out.append("call %d %s returned %r, model says %r" % (k + 1, json.dumps(c), got, exp))
        elif c['op'] == 'save_cut_load':
            if got.get('ok'):
                out.append("call %d: the image of %d bytes cut at %d is loaded as a graph instead of being rejected" % (k + 1, got.get('size', -1), c['cut']))
        elif c['op'] == 'save_load':
            if not got.get('ok'):
                out.append("call %d: load(save(g)) fails: %s" % (k + 1, got.get('error')))
            else:
                a, b2 = _norm(got['loaded']), _norm(snap)
                lowest = next((i for i, x in enumerate(snap['vertices']) if x is None or x['branch'] == 0), len(snap['vertices']))
                b2['next_v'] = a['next_v'] if a['next_v'] <= lowest else 0
                for key in ('vertices', 'branches', 'stores', 'next_v'):
                    if a[key] != b2[key]:
                        out.append("call %d load(save(g)): the loaded graph differs from the original in %s: %r vs %r" % (
                            k + 1, key, json.dumps(a[key])[:200], json.dumps(b2[key])[:200]))
                        break
        elif c['op'] == 'clone':
            cs = got.get('clone') if isinstance(got, dict) else None
            if cs is None:
                out.append("call %d clone returned no snapshot" % (k + 1))
            else:
                def norm(sn):
                    # what an absent slot still holds is not observable; reserved counters are unconstrained
                    vs = [(x if (x is None or x['branch'] != 0) else {'branch': 0}) for x in sn['vertices']]
                    vs = [None if x is None else dict(x, data=(x.get('data') if x.get('persistence') else [])) if x.get('branch') else x for x in vs]
                    return {'vertices': vs, 'branches': sn['branches'], 'stores': sn['stores'][2:], 'next_v': sn['next_v']}
                a, b2 = norm(cs), norm(snap)
                for key in ('vertices', 'branches', 'stores', 'next_v'):
                    if a[key] != b2[key]:
                        out.append("call %d clone(): the copy differs from the original in %s: %r vs %r" % (
                            k + 1, key, json.dumps(a[key])[:200], json.dumps(b2[key])[:200]))
                        break
        elif got != exp:
            out.append("call %d %s returned %r, model says %r" % (k + 1, json.dumps(c), got, exp))
        if c.get('on') != 'clone':
            d = compare(ref, snap)
            if d:
                out.append("after call %d %s: %s" % (k + 1, json.dumps(c), '; '.join(d)))
            if snap['next_v'] != prev_pos and c['op'] != 'next_id':
                out.append("call %d %s moved the allocator position %d -> %d" % (k + 1, json.dumps(c), prev_pos, snap['next_v']))
            prev_pos = snap['next_v']
            if not pre_inv:
                bi = check_inv(snap)
                if bi:
                    out.append("after call %d %s the internal state is inconsistent: %s" % (k + 1, json.dumps(c), '; '.join(bi)))
                    pre_inv = bi
        if out:
            break
    return out, info
