"""Which obligations decide which property, per tier; the run loop shared by all
engine-S graph checks."""
import json
import os
import time

from . import harness as H
from .harness import Task

QUICK_CFG = [(1, 3), (2, 4)]
THOROUGH_CFG = [(1, 3), (2, 4), (3, 5), (2, 6)]


def graph_tasks(ops, tier, cfgs=None):
    cfgs = cfgs or (QUICK_CFG if tier == 'quick' else THOROUGH_CFG)
    ts = []
    weight = {'bind': 10, 'data': 4, 'put': 3, 'readers': 2}
    for (N, cap) in cfgs:
        for op in ops:
            wt = weight.get(op, 1) * cap * N
            if op == 'bind':
                # operand ids are case-split (every ordered pair), everything else stays symbolic
                for v1 in range(cap):
                    for v2 in range(cap):
                        if v1 != v2:
                            ts.append(Task("bind N=%d cap=%d v1=%d v2=%d" % (N, cap, v1, v2), 'seir.pgraph:ob_bind',
                                           N=N, cap=cap, v1=v1, v2=v2, _weight=wt))
            elif op in ('put', 'data'):
                for v in range(cap):
                    ts.append(Task("%s N=%d cap=%d v=%d" % (op, N, cap, v), 'seir.pgraph:ob_' + op, N=N, cap=cap, v=v, _weight=wt))
            else:
                ts.append(Task("%s N=%d cap=%d" % (op, N, cap), 'seir.pgraph:ob_' + op, N=N, cap=cap, _weight=wt))
    return ts


class GraphSpec:
    """a property decided by one-step obligations on the graph IR"""
    level = 'model_checking'

    def __init__(s, ops, text, extra_tasks=None):
        s.ops = ops
        s.text = text
        s.extra_tasks = extra_tasks

    def tasks(s, tier):
        ts = graph_tasks(s.ops, tier)
        if s.extra_tasks:
            ts += s.extra_tasks(tier)
        return ts

    def run(s, prop, tier, seed, args, t0):
        os.environ.setdefault('SEIR_TASK_TIMEOUT', '900' if tier == 'quick' else '3600')
        b = H.build_drv('dev-like')
        tasks = s.tasks(tier)
        if args.only:
            tasks = [t for t in tasks if args.only in t.name]
        results = H.run_tasks(b['ll'], tasks, jobs=args.jobs, seed=seed)
        return finish(prop, tier, seed, t0, b, results, s)

    def replay(s, path):
        v = json.load(open(path))
        b = H.build_drv('dev-like')
        from . import refmodel
        lines, crashed, stderr = H.native_replay(b['replay'], v['job'])
        out, info = refmodel.judge(v['job'], lines, crashed, stderr)
        print(json.dumps({'reproduces': bool(out), 'what': out, 'info': info}, indent=1))
        return 1 if out else 0


def finish(prop, tier, seed, t0, b, results, spec):
    from . import refmodel
    judge = getattr(spec, 'judge', None) or refmodel.judge
    known, fixed = H.known_findings()
    known = [k for k in known if k['property'] == prop]
    inconclusive = [r for r in results if r['status'] == 'inconclusive']
    confirmed = []        # (violation, what, replay path)
    unreproduced = []
    known_hit = {}
    dup_count = {}
    asan = [None]
    seen_jobs = set()
    for r in results:
        for v in r['violations']:
            if prop not in v['props'] and not os.environ.get('SEIR_ALLPROPS'):
                continue
            key = "%s:%s" % (v['call'].get('op', '?'), v['clauses'][0].split(':')[0])
            if getattr(spec, 'key_by_clause', False):
                key = "%s:%s" % (v['call'].get('op', '?'), v['clauses'][0])
            jid = json.dumps(v['job'], sort_keys=True)
            if jid in seen_jobs:
                continue
            seen_jobs.add(jid)
            what = None
            if prop == 'C07' and 'text' not in v['job'] and (v['kind'] in ('memerr', 'abort') or any(
                    c.split(':')[0] in ('memory-error', 'dangling') or ':free' in c.split('.')[0] for c in v['clauses'])):
                # a memory error: replay under AddressSanitizer, followed by calls that touch every slot again
                if asan[0] is None:
                    asan[0] = H.build_asan_replay()
                job2 = dict(v['job'])
                cap = len(job2['pre']['vertices']) if job2.get('pre') else job2['cap']
                follow = []
                for u in range(cap):
                    follow += [{'op': 'add', 'v': u}, {'op': 'put', 'v': u, 'd': {'inline': False, 'data': list(range(9))}}, {'op': 'data', 'v': u}]
                job2['calls'] = list(job2['calls']) + follow
                lines2, crashed2, stderr2 = H.native_replay(asan[0], job2)
                m = [l for l in stderr2.splitlines() if 'AddressSanitizer' in l or 'double free' in l]
                if m:
                    what, info = ["under AddressSanitizer: " + m[0].strip()[:200] + " (after %d of %d calls)" % (max(0, len(lines2) - 1), len(job2['calls']))], {'asan': True}
                    v = dict(v, job=job2)
            if what is None:
                # a replay that depends on the process's random hash keys (slice: HashSet order) gets several tries
                for _try in range(getattr(spec, 'replay_tries', 1)):
                    lines, crashed, stderr = H.native_replay(b['replay'], v['job'])
                    what, info = judge(v['job'], lines, crashed, stderr)
                    if what:
                        break
            rec = dict(property=prop, task=r['name'], key=key, clauses=v['clauses'], kind=v['kind'], detail=v.get('detail'),
                       job=v['job'], native=what, info=info)
            if not what:
                unreproduced.append(rec)
                continue
            k = next((k for k in known if k['key'] == key), None)
            if k is not None:
                known_hit.setdefault(key, (k, rec))
                continue
            if any(r0['key'] == key for r0, _, _ in confirmed):
                dup_count[key] = dup_count.get(key, 1) + 1
                continue
            path = H.write_replay(prop, rec)
            confirmed.append((rec, what, path))
    addr_dep = sorted({x for r in results for x in r.get('addr_dep', [])})
    covers = {}
    for r in results:
        for name, hit in r['covers'].items():
            covers["%s / %s" % (r['name'], name)] = hit
    missed = [n for n, hit in covers.items() if not hit]
    funcs = sorted({f for r in results for f in r.get('funcs', [])})
    ev = {
        'property_id': prop, 'tier': tier, 'seed': seed, 'level': spec.level,
        'coverage': {
            'states': max(1, sum(r['paths'] for r in results)),
            'transitions': max(1, sum(r['queries'] for r in results)),
            'traces_validated_against_impl': len(seen_jobs),
            'samples': [x for r in results for x in r['samples']][:8] or [{'tasks': [r['name'] for r in results]}],
            'explanation': spec.text,
            'obligations': len(results),
            'discharged': sum(1 for r in results if r['status'] == 'ok'),
            'obligation_list': [dict(name=r['name'], status=r['status'], symbolic_paths=r['paths'], solver_queries=r['queries'],
                                 solver_s=round(r['solver_s'], 2), ir_steps=r['steps'], wall_s=round(r['wall_s'], 2),
                                 error=r.get('error')) for r in results],
            'functions_encoded': funcs[:60],
            'n_functions_encoded': len(funcs),
            'stubs': sorted({e for r in results for e in r.get('externs', [])})[:40],
            'covers': covers,
            'bounds': getattr(spec, 'bounds', 'see DESIGN.md section 3 (configurations) and the obligation names'),
            'solver': 'z3 %s, incremental QF_BV' % _z3v(),
            'solver_s': round(sum(r['solver_s'] for r in results), 2),
            'ir_files': [os.path.basename(p) for p in b['ll']],
            'build_s': round(b['seconds'], 1),
            'profile': b['profile'],
            'known_findings_hit': sorted(known_hit),
            'address_dependent_comparisons': addr_dep,
            'unreproduced_counterexamples': len(unreproduced),
            'inconclusive': [dict(name=r['name'], error=r.get('error')) for r in inconclusive],
        },
        'assumptions': getattr(spec, 'assumptions', []) + [
            'allocator never fails; allocation addresses are fresh and aligned',
            'panic entry points end the path; log level filter is Off',
            'pre-states are all states satisfying Inv (DESIGN.md section 3), reachable or not',
        ],
        'wall_s': round(time.time() - t0, 2),
        'violations': len(confirmed),
    }
    H.write_evidence(prop, ev)
    for key, (k, rec) in sorted(known_hit.items()):
        print("KNOWN-FINDING: property=%s %s" % (prop, k['text']))
    rc = 0
    for rec, what, path in confirmed:
        print("VIOLATION property=%s replay=%s" % (prop, path))
        print("   %s: %s" % (rec['key'], what[0][:300]))
        rc = 1
    if rc == 0:
        if unreproduced:
            for rec in unreproduced[:3]:
                p = H.write_replay(prop + '-unreproduced', rec)
                print("INCONCLUSIVE: solver counterexample did not reproduce natively (%s %s): %s" % (rec['task'], rec['clauses'], p))
            rc = 2
        if inconclusive:
            for r in inconclusive[:5]:
                print("INCONCLUSIVE: %s: %s" % (r['name'], (r.get('error') or '')[:400]))
            rc = 2
        if addr_dep and prop == 'C19':
            for a in addr_dep[:3]:
                print("INCONCLUSIVE: a comparison depends on allocation addresses: %s" % a)
            rc = 2
        if missed:
            for m in missed[:5]:
                print("INCONCLUSIVE: cover witness not met (vacuity guard): %s" % m)
            rc = 2
    tot = sum(r['paths'] for r in results)
    print("%s %s: %d obligations, %d symbolic paths, %d solver queries (%.1fs solver), %d violation(s), %.1fs" % (
        prop, tier, len(results), tot, sum(r['queries'] for r in results), sum(r['solver_s'] for r in results), len(confirmed), time.time() - t0))
    return rc


def _z3v():
    import z3
    return z3.get_version_string()


def slots_task(tier):
    ts = [Task("bind over all slot occupancies N=2 cap=4 v1=0 v2=1", 'seir.pgraph:ob_bind_slots', N=2, cap=4, v1=0, v2=1, _weight=30)]
    if tier == 'thorough':
        ts += [Task("bind over all slot occupancies N=2 cap=4 v1=3 v2=1", 'seir.pgraph:ob_bind_slots', N=2, cap=4, v1=3, v2=1, _weight=30),
               Task("bind over all slot occupancies N=1 cap=3 v1=2 v2=0", 'seir.pgraph:ob_bind_slots', N=1, cap=3, v1=2, v2=0, _weight=30),
               Task("bind over all slot occupancies N=3 cap=5 v1=1 v2=4", 'seir.pgraph:ob_bind_slots', N=3, cap=5, v1=1, v2=4, _weight=30)]
    return ts


from .kani import KaniSpec      # noqa: E402


def _hex_text_tasks(tier):
    """from_str(print(h)) == h: every byte symbolic up to 5 bytes; longer strings with a window of four
    symbolic bytes at every even offset (hex::decode forks four ways per symbolic byte: 4^L paths)"""
    ts = []
    top = 8 if tier == 'quick' else 10
    for L in range(0, top + 1):
        for inl in (True, False):
            if inl and L > 8:
                continue
            if L <= 5:
                cases = [(L, inl, tuple(range(L)))]
            else:
                offs = sorted(set(list(range(0, L - 3, 2)) + [L - 4]))
                cases = [(L, inl, tuple(range(o, o + 4))) for o in offs]
            ts.append(Task('print-parse Hex, %d bytes %s, symbolic bytes %s' % (L, 'inline' if inl else 'heap', 'all' if L <= 5 else 'in windows of four'),
                           'seir.ptext:ob_hex_print', cases=cases, _weight=4 ** min(L, 5)))
    return ts


class TextSpec(GraphSpec):
    """C17 on the build-std IR"""
    key_by_clause = True
    assumptions = ['characters range over all Unicode scalar values except U+0020, grouped by UTF-8 length (the shape of a text is fixed per run)',
                   'decimal indices: texts with up to 4 (quick) / 5 (thorough) symbolic digits; Alpha(n) for all n < 2^16 and windows of 1024 values at every power of ten and below 2^64',
                   'built with the nightly toolchain and -Zbuild-std (core/alloc/std IR), not the repository\'s stable toolchain',
                   'getenv returns NULL (no RUST_BACKTRACE): anyhow captures no backtrace on error paths']
    bounds = 'name texts: every shape up to 3 (quick) / 5 (thorough) characters and edge shapes up to 10 characters; see assumptions for indices'

    def __init__(s):
        GraphSpec.__init__(s, [], "Label::from_str and Display executed on the IR (with core::str / core::num / core::fmt): parse-then-print on every text of "
                                  "the domain, must-reject on long / malformed texts, print-then-parse on canonical values")

    @property
    def judge(s):
        from . import ptext
        return ptext.judge_text

    def tasks(s, tier):
        from . import ptext as PT
        kall = 3 if tier == 'quick' else 5
        names = list(PT.shapes_all(kall)) + list(PT.shapes_edge(kall + 1, 10))
        ts = []
        step = 12 if tier == 'quick' else 40
        for i in range(0, len(names), step):
            ts.append(Task("parse-print names, shapes %d..%d" % (i, min(len(names), i + step) - 1), 'seir.ptext:ob_label_parse', shapes=names[i:i + step]))
        nd = 4 if tier == 'quick' else 5
        for sh in PT.shapes_numeric(nd):
            ts.append(Task("parse-print index, shape %s" % (''.join(map(str, sh))), 'seir.ptext:ob_label_parse', shapes=[sh], numeric=True,
                           _weight=20 if len(sh) > 4 else 1))
        for t in (5, 6, 7):
            ts.append(Task("parse index, malformed tails of %d" % t, 'seir.ptext:ob_label_parse', shapes=[(2,) + (1,) * t], numeric=True,
                           only_malformed=True, _weight=30))
        for t in (9, 12, 20):
            for hole in (1, t // 2, t):
                ts.append(Task("parse index, tail of %d digits with one arbitrary non-digit at %d" % (t, hole), 'seir.ptext:ob_label_parse',
                               shapes=[(2,) + (1,) * t], numeric=True, only_malformed=True,
                               fixed={str(i): 0x31 for i in range(1, t + 1) if i != hole}, _weight=3))
        for t in range(nd + 1, 9):
            for d in (0x31, 0x39):
                ts.append(Task("parse-print index, %d digits, all but the last three fixed to '%s'" % (t, chr(d)), 'seir.ptext:ob_label_parse',
                               shapes=[(2,) + (1,) * t], numeric=True, fixed={str(i): d for i in range(1, t - 2)}, _weight=5))
        ts.append(Task("print-parse Greek", 'seir.ptext:ob_label_print', kind='greek', shapes=[(1,), (2,), (3,), (4,)]))
        strs = list(PT.shapes_all(kall, 2)) + list(PT.shapes_edge(kall + 1, 8))
        for i in range(0, len(strs), step):
            ts.append(Task("print-parse Str, shapes %d..%d" % (i, min(len(strs), i + step) - 1), 'seir.ptext:ob_label_print', kind='str', shapes=strs[i:i + step]))
        ts.append(Task("print-parse Alpha n < 2^16", 'seir.ptext:ob_label_print', kind='alpha', bits=16, _weight=40))
        highs = sorted({(10 ** k - 512) >> 10 for k in range(4, 20)} | {(1 << 54) - 1, (10 ** 19) >> 10})
        for h in highs:
            ts.append(Task("print-parse Alpha window at %d" % (h << 10), 'seir.ptext:ob_label_print', kind='alpha', bits=10, high=h, _weight=3))
        return ts

    def run(s, prop, tier, seed, args, t0):
        from . import ptext as PT
        os.environ.setdefault('SEIR_TASK_TIMEOUT', '900' if tier == 'quick' else '3600')
        b = H.build_drv('dev-like')
        tb = PT.build_bs()
        tasks = s.tasks(tier)
        if args.only:
            tasks = [t for t in tasks if args.only in t.name]
        results = H.run_tasks(tb['ll'], tasks, jobs=args.jobs, seed=seed)
        b2 = dict(b, ll=tb['ll'], seconds=b['seconds'] + tb['seconds'], profile=tb['profile'])
        return finish(prop, tier, seed, t0, b2, results, s)

    def replay(s, path):
        from . import ptext as PT
        v = json.load(open(path))
        b = H.build_drv('dev-like')
        lines, crashed, stderr = H.native_replay(b['replay'], v['job'])
        out, info = PT.judge_text(v['job'], lines, crashed, stderr)
        print(json.dumps({'reproduces': bool(out), 'what': out}, indent=1))
        return 1 if out else 0

def mem_tasks(tier):
    cfgs = QUICK_CFG if tier == 'quick' else THOROUGH_CFG
    ts = []
    for (N, cap) in cfgs:
        ts.append(Task("unconstrained arguments N=%d cap=%d" % (N, cap), 'seir.pgraph:ob_mem', N=N, cap=cap, _weight=50))
        ts.append(Task("17th member N=%d cap=%d" % (N, cap), 'seir.pgraph:ob_mem_members', N=N, cap=cap, _weight=10))
    for (N, cap) in [(1, 1), (1, 2), (2, 3), (2, 4), (3, 4), (16, 4)]:
        ts.append(Task("lifecycle N=%d cap=%d" % (N, cap), 'seir.pgraph:ob_mem_lifecycle', N=N, cap=cap))
    return ts


class SerdeSpec(TextSpec):
    """C08 / C09 on the build-std IR (serde, bincode, hashbrown, in-memory file)"""
    key_by_clause = False
    assumptions = ['the structure that drives the serializer (group tags, member lists, persistence) is case-split by the runner: every structure of the configuration is a task; edge counts, data representation/length/bytes and label payloads are symbolic inside a task',
                   'all labels of one run have the same kind: Alpha(any index), Greek(any character of one UTF-8 length), Str(ASCII characters) -- bincode writes a char as UTF-8; Str labels with multi-byte characters are outside the claim (deserialising eight symbolic multi-byte characters forks beyond the path cap)',
                   'std::fs is an in-memory file (open/write/close stubs; std::fs::read returns the stored bytes); hash keys of the HashMap inside emap\'s visitor are fixed',
                   'built with the nightly toolchain and -Zbuild-std']
    bounds = 'N=1, capacity 2 (quick); thorough adds N=2, capacity 3'

    def __init__(s, which):
        GraphSpec.__init__(s, [], {'C08': "save() then load() executed on the IR: the loaded graph's abstract state equals the original's (position 0), the original is untouched, the returned size is the image size",
                                   'C09': "the image cut at a SYMBOLIC length k < size: every path of load() must end in Err"}[which])
        s.which = which

    @property
    def judge(s):
        from . import refmodel
        return refmodel.judge

    def tasks(s, tier):
        from . import pserde as PS
        ts = []
        cfgs = [(1, 2)] if tier == 'quick' else [(1, 2), (2, 3)]
        for (N, cap) in cfgs:
            structs = PS.structures(cap)
            pers_all = list(__import__('itertools').product((0, 1, 2), repeat=cap))
            pers_q = [tuple((i + k) % 3 for i in range(cap)) for k in range(3)]
            for si, (tags, mem) in enumerate(structs):
                full = tier == 'thorough' and cap == 2
                for pers in (pers_all if full else pers_q):
                    labs = PS.LAB_KINDS if (full or (si == 3 and pers == pers_q[1])) else ('alpha',)
                    if tier == 'thorough' and cap == 3:
                        labs = ('alpha', 'str1') if si % 4 == 0 else ('alpha',)
                    for lab in labs:
                        nm = "N=%d cap=%d tags=%s members=%s pers=%s labels=%s" % (N, cap, tags, mem, list(pers), lab)
                        if s.which == 'C08':
                            ts.append(Task("save-load " + nm, 'seir.pserde:ob_save_load', N=N, cap=cap, tags=list(tags), members={str(k): v for k, v in mem.items()},
                                           pers=list(pers), lab=lab, _weight=50 if lab != 'alpha' else 20))
                        else:
                            if lab not in ('alpha', 'greek1', 'str1'):
                                continue
                            combos = (([1] * cap, [1] * cap), ([0] + [N] * (cap - 1), [0, 2] + [0] * (cap - 2)))
                            if tier == 'quick':
                                # one cut obligation per structure (persistence and payload shape rotate), label kinds on one structure
                                if not ((pers == pers_q[si % 3] and lab == 'alpha') or (si == 3 and pers == pers_q[1] and lab != 'str1')):
                                    continue
                                combos = (combos[si % 2],)
                            for (elen, dsel) in combos:
                                ts.append(Task("truncated %s edges=%s data=%s" % (nm, elen, dsel), 'seir.pserde:ob_truncated', N=N, cap=cap, tags=list(tags),
                                               members={str(k): v for k, v in mem.items()}, pers=list(pers), lab=lab, elen=elen, dsel=dsel, _weight=30))
        return ts

    def run(s, prop, tier, seed, args, t0):
        from . import ptext as PT
        os.environ.setdefault('SEIR_TASK_TIMEOUT', '900' if tier == 'quick' else '3600')
        b = H.build_drv('dev-like')
        tb = PT.build_bs(extra=True)
        tasks = s.tasks(tier)
        if args.only:
            tasks = [t for t in tasks if args.only in t.name]
        results = H.run_tasks(tb['ll'], tasks, jobs=args.jobs, seed=seed)
        b2 = dict(b, ll=tb['ll'], seconds=b['seconds'] + tb['seconds'], profile=tb['profile'])
        return finish(prop, tier, seed, t0, b2, results, s)

    def replay(s, path):
        return GraphSpec.replay(s, path)


class ExportSpec(SerdeSpec):
    """C18 on the build-std IR (xml-builder, itertools sort, core::fmt)"""
    key_by_clause = False
    assumptions = ['the structure of the graph is fixed per task (two vertex slots, each one of nine shapes: absent clean / absent with stale datum and edge / present without data / with edges / with an empty, inline 3, inline 8 or heap 9 datum, read or unread / Empty with left-over bytes); payload symbolic',
                   'all labels of a run have one kind: Alpha(n < 1024), Greek(any character of one UTF-8 length that needs no XML escaping), Str of exactly three ASCII characters; edge targets are ids below the capacity',
                   'the text is tokenised by the checker (tags and attributes for XML, the two line forms for DOT): a change of the layout that keeps the tokens is accepted, a different vocabulary is reported',
                   'built with the nightly toolchain and -Zbuild-std']
    bounds = 'capacity 2, N=1 (all tasks) and N=2 (Greek labels); 18 shape pairs (quick) / all 81 (thorough) x label kinds x {xml, dot}'

    def __init__(s):
        GraphSpec.__init__(s, [], "to_xml() and to_dot() executed on the IR; the produced text (concrete skeleton, symbolic payload bytes) is tokenised and compared with the abstract state: one node per present vertex in ascending order and none for absent ids, per vertex exactly its edges (label text and target) and its data bytes iff it has data; the graph is untouched")
        s.which = 'C18'

    @property
    def judge(s):
        from . import pexport
        return pexport.judge_export

    def tasks(s, tier):
        from . import pexport as PE
        names = list(PE.SHAPES)
        ts = []
        pairs = [(a, b) for a in names for b in names] if tier == 'thorough' else \
                [(names[i], names[(i + k) % len(names)]) for i in range(len(names)) for k in (1, 4)]
        for pi, (a, b) in enumerate(pairs):
            labs = PE.LABS if tier == 'thorough' else (PE.LABS[pi % len(PE.LABS)],)
            for lab in labs:
                for which in ('xml', 'dot'):
                    ts.append(Task("to_%s N=1 cap=2 shapes=%s,%s labels=%s" % (which, a, b, lab), 'seir.pexport:ob_export', N=1, cap=2, shapes=[a, b], lab=lab, which=which,
                                   _weight=20 if lab == 'alpha' else 5))
        for (a, b, lab) in (('edges', 'inline8', 'greek2'), ('inline8', 'absent-stale', 'greek1'), ('edges', 'edges', 'greek3')):
            for which in ('xml', 'dot'):
                if tier == 'quick' and (which == 'dot' or (a, b) == ('edges', 'edges')):
                    continue         # two symbolic labels per vertex through DOT's special cases and the sort: 800 paths, minutes
                ts.append(Task("to_%s N=2 cap=2 shapes=%s,%s labels=%s" % (which, a, b, lab), 'seir.pexport:ob_export', N=2, cap=2, shapes=[a, b], lab=lab, which=which, _weight=30))
        # two edges of one vertex (possibly to the same target, labels in either order) with the cheap label kinds, in both tiers
        # (seed S30 -- a dedup of label-adjacent edges to one target in to_dot() -- passed the quick tier before these were added)
        for (a, b, lab) in (('edges', 'plain', 'alpha'), ('edges', 'plain', 'str1'), ('plain', 'edges', 'alpha')):
            for which in ('xml', 'dot'):
                ts.append(Task("to_%s N=2 cap=2 shapes=%s,%s labels=%s" % (which, a, b, lab), 'seir.pexport:ob_export', N=2, cap=2, shapes=[a, b], lab=lab, which=which, _weight=40))
        return ts

    def replay(s, path):
        from . import pexport as PE
        v = json.load(open(path))
        b = H.build_drv('dev-like')
        lines, crashed, stderr = H.native_replay(b['replay'], v['job'])
        out, info = PE.judge_export(v['job'], lines, crashed, stderr)
        print(json.dumps({'reproduces': bool(out), 'what': out}, indent=1))
        return 1 if out else 0


class Text20Spec(ExportSpec):
    """C20 on the build-std IR"""
    assumptions = ['three vertex slots; the edge structure (targets) is one of six shapes (chain, cycle with a shared target, two-cycle with an unreachable vertex, fan-in, two labels to one target, no edges) and is fixed per task, so the HashSet of inspect() hashes concrete ids; labels and data bytes are symbolic',
                   'all labels of a run have one kind: Alpha(n < 1024), Greek(any character of one UTF-8 length other than the characters the three text forms use as delimiters), Str of three ASCII letters/digits',
                   'edges never lead to an absent vertex in these structures (what inspect() shows behind a dangling edge is not specified)',
                   'the text is tokenised by the checker; every byte outside the payload spans is proved fixed per path',
                   'built with the nightly toolchain and -Zbuild-std; fixed hash keys']
    bounds = 'capacity 3, N=2; 6 edge structures x 2 data-shape assignments x start vertices x rotating label kinds (thorough: all label kinds)'

    def __init__(s):
        GraphSpec.__init__(s, [], "inspect(v), Debug and v_print(v) executed on the IR; the text is tokenised under one model, the skeleton proved fixed, and compared with the abstract state: inspect lists every edge of every reachable vertex exactly once (multiset equality with symbolic labels) and terminates on cycles; Debug lists exactly the present vertices with their edges and data; v_print shows the data marker iff the vertex has data and exactly its labels")
        s.which = 'C20'

    @property
    def judge(s):
        from . import pexport
        return pexport.judge_text20

    def tasks(s, tier):
        from . import pexport as PE
        ts = []
        shapesets = (['plain', 'inline3-read', 'heap9'], ['empty-datum', 'stale-under-empty', 'inline8'])
        k = 0
        for st_name in PE.STRUCTS:
            for shp in shapesets:
                labs = PE.LABS if tier == 'thorough' else (PE.LABS[k % len(PE.LABS)], PE.LABS[(k + 3) % len(PE.LABS)])
                k += 1
                for lab in labs:
                    # an index label prints as a decimal of 1..4 digits: every label forks four ways in core::fmt, a structure
                    # with four edges 256 ways before the sort forks again (13 min per task).  Quick: indices below 100 for the
                    # structures with more than two edges (two digit counts), below 1024 elsewhere and in the thorough tier.
                    ne = sum(len(x) for x in PE.STRUCTS[st_name])
                    amax = 100 if (tier == 'quick' and lab == 'alpha' and ne > 2) else 1 << 10
                    sfx = (' (index < %d)' % amax) if (lab == 'alpha' and amax != 1 << 10) else ''
                    for start in range(3):
                        ts.append(Task("inspect(%d) %s shapes=%s labels=%s%s" % (start, st_name, ','.join(shp), lab, sfx), 'seir.pexport:ob_text20', N=2, cap=3, struct=st_name, shapes=shp,
                                       lab=lab, which='inspect', start=start, alpha_max=amax, _weight=15 if lab == 'alpha' else 4))
                        ts.append(Task("v_print(%d) %s shapes=%s labels=%s%s" % (start, st_name, ','.join(shp), lab, sfx), 'seir.pexport:ob_text20', N=2, cap=3, struct=st_name, shapes=shp,
                                       lab=lab, which='v_print', start=start, alpha_max=amax, _weight=15 if lab == 'alpha' else 2))
                    ts.append(Task("Debug %s shapes=%s labels=%s%s" % (st_name, ','.join(shp), lab, sfx), 'seir.pexport:ob_text20', N=2, cap=3, struct=st_name, shapes=shp,
                                   lab=lab, which='debug', alpha_max=amax, _weight=20 if lab == 'alpha' else 5))
        # an absent slot among the three (Debug must skip it; it is unreachable in 'chain' from 0 only if it is the last)
        for lab in (('greek2', 'alpha') if tier == 'quick' else PE.LABS):
            ts.append(Task("Debug no-edges shapes=plain,absent-stale,inline8 labels=%s" % lab, 'seir.pexport:ob_text20', N=2, cap=3, struct='no-edges',
                           shapes=['plain', 'absent-stale', 'inline8'], lab=lab, which='debug'))
        return ts

    def replay(s, path):
        from . import pexport as PE
        v = json.load(open(path))
        b = H.build_drv('dev-like')
        lines, crashed, stderr = H.native_replay(b['replay'], v['job'])
        out, info = PE.judge_text20(v['job'], lines, crashed, stderr)
        print(json.dumps({'reproduces': bool(out), 'what': out}, indent=1))
        return 1 if out else 0


class SliceSpec(SerdeSpec):
    """C13 on the build-std IR (std HashSet / hashbrown, emap iterator, empty/add/bind)"""
    key_by_clause = False
    replay_tries = 6
    assumptions = ['the edge structure of the source graph (targets per vertex, no self loops) is fixed per task, so the HashSets of slice_some() hash concrete ids; labels, data and the predicate are symbolic',
                   'the predicate is one solver variable per source edge (labels of one vertex are pairwise distinct, so this is every function of (from, to, label)); the real code branches on the answers',
                   'everything reachable from the start vertex is present (precondition of the property)',
                   'fixed hash keys (two key sets: they change the order in which the work list is drained)',
                   'built with the nightly toolchain and -Zbuild-std']
    bounds = 'N=2: quick: ALL 343 edge structures of capacity 3 (up to two edges per vertex, no self loops; one start vertex each, every start for ten curated shapes), 45 structures of capacity 4, label kinds alpha / greek / str / two constant-label families rotating, two hash-key sets; thorough: all 343 x every start vertex + slice(), 300 structures of capacity 4 incl. any-kind labels, 40 structures with N=3'

    def __init__(s):
        GraphSpec.__init__(s, [], "slice(v) and slice_some(v, p) executed on the IR with a symbolic predicate: the result's present vertices are exactly the closure of v under accepted edges (under their ids), it holds every accepted edge between kept vertices and no edge the source lacks, it satisfies the representation invariant, the source is byte-identical, the call returns on cyclic structures")
        s.which = 'C13'

    @property
    def judge(s):
        from . import pslice
        return pslice.judge_slice

    def tasks(s, tier):
        from . import pslice as PL
        return PL.tasks(tier)

    def run(s, prop, tier, seed, args, t0):
        # these obligations take seconds; one that hashes a symbolic label (SipHash) would keep the solver busy for its whole budget
        os.environ.setdefault('SEIR_TASK_TIMEOUT', '300' if tier == 'quick' else '1800')
        return SerdeSpec.run(s, prop, tier, seed, args, t0)

    def replay(s, path):
        from . import pslice as PL
        v = json.load(open(path))
        b = H.build_drv('dev-like')
        lines, crashed, stderr = H.native_replay(b['replay'], v['job'])
        out, info = PL.judge_slice(v['job'], lines, crashed, stderr)
        print(json.dumps({'reproduces': bool(out), 'what': out}, indent=1))
        return 1 if out else 0


class MergeSpec(SliceSpec):
    """C11 / C12 on the build-std IR (std HashMap/HashSet, recursion, anyhow error text)"""
    replay_tries = 1
    assumptions = ['the structure of both graphs is fixed per task: present ids, edge targets (trees of up to 3 vertices with out-degree <= 2 on arbitrary ids below the capacity), which vertices of the right graph carry data, the group structure a history of add/bind leaves (connected vertices share a group), the left graph\'s allocator position (every value that leaves enough absent ids)',
                   'symbolic: all labels of both graphs (one kind per task, or any kind), all data bytes (inline 0..8 with padding, heap 9 and 10), the persistence of the left graph\'s vertices; the real code forks on every comparison of a right label with the labels of the left vertex it is mapped to, so every overlap of the two trees is a path',
                   'N=4 so that two labels demanded by the right graph always fit next to two of the left (the property is stated for results within the limits)',
                   'fixed hash keys; built with the nightly toolchain and -Zbuild-std']
    bounds = 'N=4, capacity 5; quick: 60 (C11) / 40 (C12) pairs of tree shapes drawn from all pairs, left vertex, position and data placement rotating; thorough: 600 / 400'

    def __init__(s, which):
        GraphSpec.__init__(s, [], {'C11': "merge() of two trees executed on the IR: returns Ok; the right-to-left mapping followed along the labels in the post-state exists for every right path, is injective, maps onto vertices carrying the same data; everything the left graph had is still there; every edge afterwards is an old one or demanded by the right graph; exactly the demanded new vertices were created under ids that were absent; Inv (counter == recount) holds again; the right graph is byte-identical",
                                   'C12': "merge() with a right graph that has present vertices `right` does not reach: every path returns Err, never Ok, and the text names exactly the missed vertices; the right graph is byte-identical"}[which])
        s.which = which

    @property
    def judge(s):
        from . import pmerge
        return pmerge.judge_merge

    def tasks(s, tier):
        from . import pmerge as PM
        return PM.tasks(tier, s.which)

    def replay(s, path):
        from . import pmerge as PM
        v = json.load(open(path))
        b = H.build_drv('dev-like')
        lines, crashed, stderr = H.native_replay(b['replay'], v['job'])
        out, info = PM.judge_merge(v['job'], lines, crashed, stderr)
        print(json.dumps({'reproduces': bool(out), 'what': out}, indent=1))
        return 1 if out else 0


class ScriptSpec(SliceSpec):
    """C14 on the build-std IR including the regex crates"""
    assumptions = ['a task fixes a program (ADD/BIND/PUT over literal ids and $variables within the limits) and ONE rendering of it (white space, comments, nu-prefixes, hex case and separators, trailing semicolon: seeded generator); the deciding step is over the symbolic bytes inside the rendering: every label character, every decimal digit of an alpha label, every hex digit (within its range), up to two white-space characters, comment characters',
                   'the graph starts empty (capacity 5, N=2); ids are concrete',
                   'the four regex::Regex objects are compiled and run by the real regex crates inside the executor (regex-syntax, regex-automata, aho-corasick, memchr); CPU feature detection reports no optional feature; nuw/nsw/exact flag violations are treated as poison (not reported) in these runs',
                   'single fault: one ASCII byte of a concrete rendering ranges over all other ASCII values; the classification of a witness text as malformed is made by a reference grammar (seir/pscript.py ref_parse) on one model per path; Err-ness and the equality of the post-state with the commands before the fault are solver verdicts over the whole path',
                   'built with the nightly toolchain and -Zbuild-std; fixed hash keys']
    bounds = 'quick: 16 programs of 2..6 commands (half of them after 2-3 direct calls: non-empty start) x one rendering each (up to about 40 symbolic bytes per text), 32 single-fault positions over 12 programs (byte categories taking turns); thorough: 60 / 120'

    def __init__(s):
        GraphSpec.__init__(s, [], "Script::from_str(text).deploy_to(g) executed on the IR together with the regex crates; the same pre-state receives the corresponding add/bind/put/next_id calls built from the same solver variables; abstract post-states equal for all values of the symbolic bytes, count == number of commands; single-fault texts: no panic, Err for malformed witnesses, prefix applied")
        s.which = 'C14'

    @property
    def judge(s):
        from . import pscript
        return pscript.judge_script

    def tasks(s, tier):
        from . import pscript as PS
        return PS.tasks(tier)

    def run(s, prop, tier, seed, args, t0):
        from . import ptext as PT
        os.environ.setdefault('SEIR_TASK_TIMEOUT', '600' if tier == 'quick' else '1800')
        b = H.build_drv('dev-like')
        tb = PT.build_bs(extra='script')
        tasks = s.tasks(tier)
        if args.only:
            tasks = [t for t in tasks if args.only in t.name]
        results = H.run_tasks(tb['ll'], tasks, jobs=args.jobs, seed=seed)
        b2 = dict(b, ll=tb['ll'], seconds=b['seconds'] + tb['seconds'], profile=tb['profile'])
        return finish(prop, tier, seed, t0, b2, results, s)

    def replay(s, path):
        from . import pscript as PS
        v = json.load(open(path))
        b = H.build_drv('dev-like')
        lines, crashed, stderr = H.native_replay(b['replay'], v['job'])
        out, info = PS.judge_script(v['job'], lines, crashed, stderr)
        print(json.dumps({'reproduces': bool(out), 'what': out}, indent=1))
        return 1 if out else 0


PROPS = {
    'C14': ScriptSpec(),
    'C13': SliceSpec(),
    'C11': MergeSpec('C11'),
    'C12': MergeSpec('C12'),
    'C20': Text20Spec(),
    'C18': ExportSpec(),
    'C08': SerdeSpec('C08'),
    'C09': SerdeSpec('C09'),
    'C17': TextSpec(),
    'C15': KaniSpec('c15_', "Hex observers, indices and the six range kinds agree with the byte slice (ok / panic harness pairs); equality across representations; i64/f64 conversions (engine K); from_str(print(h)) == h (engine S)",
                    text_tasks=lambda tier: _hex_text_tasks(tier)),
    'C16': KaniSpec('c16_', "concat is byte-string concatenation for all four representation combinations, split by the region of the recorded finding", known_harness='c16_concat_inside_known_region'),
    'C01': GraphSpec(['add', 'put', 'data', 'bind', 'next_id', 'readers'],
                     "GC safety as a step relation from every Inv state: only data(v) removes, only members of v's group "
                     "(ghost bind-history relation: linked/bound), none of them unread; all other calls leave every tag; "
                     "&self readers leave the three stores byte-identical; keys()/len() equal the tag table"),
    'C02': GraphSpec(['add', 'put', 'data', 'bind'],
                     "abstract transition relation (group formation / join / no-op, collection exactly when the last unread "
                     "datum of the group is read) + Inv preservation (counter == recount, member lists == tags) + no panic "
                     "within the limits, one step from every Inv state"),
    'C03': GraphSpec(['add', 'put', 'data', 'bind', 'readers'],
                     "edges and data read back what was written: bind/put update exactly one entry, data()/kid()/kids() "
                     "return what the abstract state holds, every other cell of every vertex is unchanged (incl. by a collection)"),
    'C10': GraphSpec(['clone'], "clone() from every Inv state: abstract equality of the copy, allocations of its own, original byte-identical"),
    'C07': GraphSpec(['add', 'put', 'data', 'bind', 'next_id', 'readers', 'clone'],
                     "every path of every operation ends in return or panic (the executor's memory model checks bounds, liveness, dealloc layout, initialisation); within limits: return; id >= capacity, (N+1)-th label, 17th member: panic", extra_tasks=mem_tasks),
    'C19': GraphSpec(['add', 'put', 'data', 'bind', 'next_id', 'readers', 'clone'],
                     "every operation refines one functional, configuration-independent step relation (results, kids order, next_id = first absent id at or above the position, post-state up to slot names), proved per configuration; no comparison depends on allocation addresses",
                     extra_tasks=lambda tier: [Task('lifecycle N=%d cap=%d' % (N, cap), 'seir.pgraph:ob_mem_lifecycle', N=N, cap=cap) for (N, cap) in [(1, 2), (16, 4), (16, 8)]]),
    'C04': GraphSpec(['add'], "add(v) from every Inv state: blank vertex on an absent id (arbitrary stale contents), nothing changes on a present id"),
    'C05': GraphSpec(['next_id', 'add', 'put', 'data', 'bind', 'clone'], "next_id() from every Inv state with an absent id at or above the allocator position: result below "
                     "capacity, absent, at or above the position (so never issued before), position moves past it; nothing else changes; "
                     "add/bind/put/data leave the position (frame clauses of C01-C03 obligations)"),
    'C06': GraphSpec(['data', 'bind', 'add', 'put', 'next_id'],
                     "group capacity is given back: inductive argument over the slot table (Inv: slot occupied iff a vertex carries its tag; "
                     "collection empties slot and counter; bind of two ungrouped vertices takes a previously empty slot >= 2 for every one of "
                     "the 2^14 occupancy patterns; no other call changes occupancy)", extra_tasks=slots_task),
}
