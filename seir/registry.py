"""Which obligations decide which property, per tier; the run loop shared by all
engine-S graph checks."""
import json
import os
import time

from . import harness as H
from .harness import Task

QUICK_CFG = [(1, 3), (2, 4)]
THOROUGH_CFG = [(1, 3), (2, 4), (3, 5), (2, 6)]


def graph_tasks(ops, tier, cfgs=None):
    cfgs = cfgs or (QUICK_CFG if tier == 'quick' else THOROUGH_CFG)
    ts = []
    weight = {'bind': 10, 'data': 4, 'put': 3, 'readers': 2}
    for (N, cap) in cfgs:
        for op in ops:
            wt = weight.get(op, 1) * cap * N
            if op == 'bind':
                # operand ids are case-split (every ordered pair), everything else stays symbolic
                for v1 in range(cap):
                    for v2 in range(cap):
                        if v1 != v2:
                            ts.append(Task("bind N=%d cap=%d v1=%d v2=%d" % (N, cap, v1, v2), 'seir.pgraph:ob_bind',
                                           N=N, cap=cap, v1=v1, v2=v2, _weight=wt))
            elif op in ('put', 'data'):
                for v in range(cap):
                    ts.append(Task("%s N=%d cap=%d v=%d" % (op, N, cap, v), 'seir.pgraph:ob_' + op, N=N, cap=cap, v=v, _weight=wt))
            else:
                ts.append(Task("%s N=%d cap=%d" % (op, N, cap), 'seir.pgraph:ob_' + op, N=N, cap=cap, _weight=wt))
    return ts


class GraphSpec:
    """a property decided by one-step obligations on the graph IR"""
    level = 'model_checking'

    def __init__(s, ops, text, extra_tasks=None):
        s.ops = ops
        s.text = text
        s.extra_tasks = extra_tasks

    def tasks(s, tier):
        ts = graph_tasks(s.ops, tier)
        if s.extra_tasks:
            ts += s.extra_tasks(tier)
        return ts

    def run(s, prop, tier, seed, args, t0):
        b = H.build_drv('dev-like')
        tasks = s.tasks(tier)
        if args.only:
            tasks = [t for t in tasks if args.only in t.name]
        results = H.run_tasks(b['ll'], tasks, jobs=args.jobs, seed=seed)
        return finish(prop, tier, seed, t0, b, results, s)

    def replay(s, path):
        v = json.load(open(path))
        b = H.build_drv('dev-like')
        from . import refmodel
        lines, crashed, stderr = H.native_replay(b['replay'], v['job'])
        out, info = refmodel.judge(v['job'], lines, crashed, stderr)
        print(json.dumps({'reproduces': bool(out), 'what': out, 'info': info}, indent=1))
        return 1 if out else 0


def finish(prop, tier, seed, t0, b, results, spec):
    from . import refmodel
    known, fixed = H.known_findings()
    known = [k for k in known if k['property'] == prop]
    inconclusive = [r for r in results if r['status'] == 'inconclusive']
    confirmed = []        # (violation, what, replay path)
    unreproduced = []
    known_hit = {}
    dup_count = {}
    seen_jobs = set()
    for r in results:
        for v in r['violations']:
            if prop not in v['props'] and not os.environ.get('SEIR_ALLPROPS'):
                continue
            key = "%s:%s" % (v['call'].get('op', '?'), v['clauses'][0].split(':')[0])
            jid = json.dumps(v['job'], sort_keys=True)
            if jid in seen_jobs:
                continue
            seen_jobs.add(jid)
            lines, crashed, stderr = H.native_replay(b['replay'], v['job'])
            what, info = refmodel.judge(v['job'], lines, crashed, stderr)
            rec = dict(property=prop, task=r['name'], key=key, clauses=v['clauses'], kind=v['kind'], detail=v.get('detail'),
                       job=v['job'], native=what, info=info)
            if not what:
                unreproduced.append(rec)
                continue
            k = next((k for k in known if k['key'] == key), None)
            if k is not None:
                known_hit.setdefault(key, (k, rec))
                continue
            if any(r0['key'] == key for r0, _, _ in confirmed):
                dup_count[key] = dup_count.get(key, 1) + 1
                continue
            path = H.write_replay(prop, rec)
            confirmed.append((rec, what, path))
    covers = {}
    for r in results:
        for name, hit in r['covers'].items():
            covers["%s / %s" % (r['name'], name)] = hit
    missed = [n for n, hit in covers.items() if not hit]
    funcs = sorted({f for r in results for f in r.get('funcs', [])})
    ev = {
        'property_id': prop, 'tier': tier, 'seed': seed, 'level': spec.level,
        'coverage': {
            'states': max(1, sum(r['paths'] for r in results)),
            'transitions': max(1, sum(r['queries'] for r in results)),
            'traces_validated_against_impl': len(seen_jobs),
            'samples': [x for r in results for x in r['samples']][:8] or [{'tasks': [r['name'] for r in results]}],
            'explanation': spec.text,
            'obligations': len(results),
            'discharged': sum(1 for r in results if r['status'] == 'ok'),
            'obligation_list': [dict(name=r['name'], status=r['status'], symbolic_paths=r['paths'], solver_queries=r['queries'],
                                 solver_s=round(r['solver_s'], 2), ir_steps=r['steps'], wall_s=round(r['wall_s'], 2),
                                 error=r.get('error')) for r in results],
            'functions_encoded': funcs[:60],
            'n_functions_encoded': len(funcs),
            'stubs': sorted({e for r in results for e in r.get('externs', [])})[:40],
            'covers': covers,
            'bounds': getattr(spec, 'bounds', 'see DESIGN.md section 3 (configurations) and the obligation names'),
            'solver': 'z3 %s, incremental QF_BV' % _z3v(),
            'solver_s': round(sum(r['solver_s'] for r in results), 2),
            'ir_files': [os.path.basename(p) for p in b['ll']],
            'build_s': round(b['seconds'], 1),
            'profile': b['profile'],
            'known_findings_hit': sorted(known_hit),
            'unreproduced_counterexamples': len(unreproduced),
            'inconclusive': [dict(name=r['name'], error=r.get('error')) for r in inconclusive],
        },
        'assumptions': getattr(spec, 'assumptions', []) + [
            'allocator never fails; allocation addresses are fresh and aligned',
            'panic entry points end the path; log level filter is Off',
            'pre-states are all states satisfying Inv (DESIGN.md section 3), reachable or not',
        ],
        'wall_s': round(time.time() - t0, 2),
        'violations': len(confirmed),
    }
    H.write_evidence(prop, ev)
    for key, (k, rec) in sorted(known_hit.items()):
        print("KNOWN-FINDING: property=%s %s" % (prop, k['text']))
    rc = 0
    for rec, what, path in confirmed:
        print("VIOLATION property=%s replay=%s" % (prop, path))
        print("   %s: %s" % (rec['key'], what[0][:300]))
        rc = 1
    if rc == 0:
        if unreproduced:
            for rec in unreproduced[:3]:
                p = H.write_replay(prop + '-unreproduced', rec)
                print("INCONCLUSIVE: solver counterexample did not reproduce natively (%s %s): %s" % (rec['task'], rec['clauses'], p))
            rc = 2
        if inconclusive:
            for r in inconclusive[:5]:
                print("INCONCLUSIVE: %s: %s" % (r['name'], (r.get('error') or '')[:400]))
            rc = 2
        if missed:
            for m in missed[:5]:
                print("INCONCLUSIVE: cover witness not met (vacuity guard): %s" % m)
            rc = 2
    tot = sum(r['paths'] for r in results)
    print("%s %s: %d obligations, %d symbolic paths, %d solver queries (%.1fs solver), %d violation(s), %.1fs" % (
        prop, tier, len(results), tot, sum(r['queries'] for r in results), sum(r['solver_s'] for r in results), len(confirmed), time.time() - t0))
    return rc


def _z3v():
    import z3
    return z3.get_version_string()


def slots_task(tier):
    ts = [Task("bind over all slot occupancies N=2 cap=4 v1=0 v2=1", 'seir.pgraph:ob_bind_slots', N=2, cap=4, v1=0, v2=1, _weight=30)]
    if tier == 'thorough':
        ts += [Task("bind over all slot occupancies N=2 cap=4 v1=3 v2=1", 'seir.pgraph:ob_bind_slots', N=2, cap=4, v1=3, v2=1, _weight=30),
               Task("bind over all slot occupancies N=1 cap=3 v1=2 v2=0", 'seir.pgraph:ob_bind_slots', N=1, cap=3, v1=2, v2=0, _weight=30),
               Task("bind over all slot occupancies N=3 cap=5 v1=1 v2=4", 'seir.pgraph:ob_bind_slots', N=3, cap=5, v1=1, v2=4, _weight=30)]
    return ts


from .kani import KaniSpec      # noqa: E402

def mem_tasks(tier):
    cfgs = QUICK_CFG if tier == 'quick' else THOROUGH_CFG
    ts = []
    for (N, cap) in cfgs:
        ts.append(Task("unconstrained arguments N=%d cap=%d" % (N, cap), 'seir.pgraph:ob_mem', N=N, cap=cap, _weight=50))
        ts.append(Task("17th member N=%d cap=%d" % (N, cap), 'seir.pgraph:ob_mem_members', N=N, cap=cap, _weight=10))
    for (N, cap) in [(1, 1), (1, 2), (2, 3), (2, 4), (3, 4), (16, 4)]:
        ts.append(Task("lifecycle N=%d cap=%d" % (N, cap), 'seir.pgraph:ob_mem_lifecycle', N=N, cap=cap))
    return ts


PROPS = {
    'C15': KaniSpec('c15_', "Hex observers, indices and the six range kinds agree with the byte slice (ok / panic harness pairs); equality across representations; i64/f64 conversions"),
    'C16': KaniSpec('c16_', "concat is byte-string concatenation for all four representation combinations, split by the region of the recorded finding", known_harness='c16_concat_inside_known_region'),
    'C01': GraphSpec(['add', 'put', 'data', 'bind', 'next_id', 'readers'],
                     "GC safety as a step relation from every Inv state: only data(v) removes, only members of v's group "
                     "(ghost bind-history relation: linked/bound), none of them unread; all other calls leave every tag; "
                     "&self readers leave the three stores byte-identical; keys()/len() equal the tag table"),
    'C02': GraphSpec(['add', 'put', 'data', 'bind'],
                     "abstract transition relation (group formation / join / no-op, collection exactly when the last unread "
                     "datum of the group is read) + Inv preservation (counter == recount, member lists == tags) + no panic "
                     "within the limits, one step from every Inv state"),
    'C03': GraphSpec(['add', 'put', 'data', 'bind', 'readers'],
                     "edges and data read back what was written: bind/put update exactly one entry, data()/kid()/kids() "
                     "return what the abstract state holds, every other cell of every vertex is unchanged (incl. by a collection)"),
    'C10': GraphSpec(['clone'], "clone() from every Inv state: abstract equality of the copy, allocations of its own, original byte-identical"),
    'C07': GraphSpec(['add', 'put', 'data', 'bind', 'next_id', 'readers', 'clone'],
                     "every path of every operation ends in return or panic (the executor's memory model checks bounds, liveness, dealloc layout, initialisation); within limits: return; id >= capacity, (N+1)-th label, 17th member: panic", extra_tasks=mem_tasks),
    'C04': GraphSpec(['add'], "add(v) from every Inv state: blank vertex on an absent id (arbitrary stale contents), nothing changes on a present id"),
    'C05': GraphSpec(['next_id'], "next_id() from every Inv state with an absent id at or above the allocator position: result below "
                     "capacity, absent, at or above the position (so never issued before), position moves past it; nothing else changes; "
                     "add/bind/put/data leave the position (frame clauses of C01-C03 obligations)"),
    'C06': GraphSpec(['data', 'bind', 'add', 'put', 'next_id'],
                     "group capacity is given back: inductive argument over the slot table (Inv: slot occupied iff a vertex carries its tag; "
                     "collection empties slot and counter; bind of two ungrouped vertices takes a previously empty slot >= 2 for every one of "
                     "the 2^14 occupancy patterns; no other call changes occupancy)", extra_tasks=slots_task),
}
