"""Check runner: rebuilds the IR from /repo, runs obligations in worker processes,
replays counterexamples natively, applies the known-findings file, writes evidence."""
import glob
import hashlib
import json
import multiprocessing as mp
import os
import subprocess
import sys
import time
import traceback

VERIF = os.path.dirname(os.path.dirname(os.path.abspath(__file__)))
BUILD = os.path.join(VERIF, '.build')
REPO = os.path.abspath(os.environ.get('VERIF_REPO', '/repo'))
if REPO != '/repo':
    # a copy of the repository (seed sweeps in the background): own build directory, driver crates
    # copied with their path dependency redirected
    BUILD = os.path.join(VERIF, '.build-' + hashlib.sha1(REPO.encode()).hexdigest()[:8])


def crate_dir(name):
    """the driver crate `name` (drv, bs, kani); with VERIF_REPO set, a copy whose path dependency
    points at that tree"""
    src = os.path.join(VERIF, name)
    if REPO == '/repo':
        return src
    import shutil
    dst = os.path.join(BUILD, 'crates', name)
    shutil.copytree(src, dst, dirs_exist_ok=True, ignore=shutil.ignore_patterns('target', 'Cargo.lock'))
    t = open(os.path.join(src, 'Cargo.toml')).read().replace('path = "/repo"', 'path = "%s"' % REPO)
    old = open(os.path.join(dst, 'Cargo.toml')).read() if os.path.exists(os.path.join(dst, 'Cargo.toml')) else ''
    if old != t:
        open(os.path.join(dst, 'Cargo.toml'), 'w').write(t)
    return dst


DRV = crate_dir('drv')
RUSTFLAGS = "--emit=llvm-ir -C no-vectorize-loops -C no-vectorize-slp"

PROFILES = {'dev-like': ('release', ['--release']), 'rel-like': ('rel', ['--profile', 'rel'])}


class Broken(Exception):
    pass


def sh(cmd, **kw):
    return subprocess.run(cmd, stdout=subprocess.PIPE, stderr=subprocess.PIPE, text=True, **kw)


def build_drv(profile='dev-like', quiet=True):
    """cargo build of the driver (and so of /repo's working tree) with IR emission; returns
    dict(ll=[paths], replay=path, seconds=float)"""
    sub, flags = PROFILES[profile]
    tdir = os.path.join(BUILD, 'drv')
    env = dict(os.environ, CARGO_TARGET_DIR=tdir, RUSTFLAGS=RUSTFLAGS, CARGO_NET_OFFLINE='true')
    env.pop('RUSTUP_TOOLCHAIN', None)
    lock = os.path.join(DRV, 'Cargo.lock')
    if not os.path.exists(lock):
        import shutil
        shutil.copy(os.path.join(REPO, 'Cargo.lock'), lock)
    t0 = time.time()
    r = sh(['cargo', 'build', '--offline'] + flags, cwd=DRV, env=env)
    if r.returncode != 0:
        raise Broken("driver build failed:\n" + r.stderr[-3000:])
    deps = os.path.join(tdir, sub, 'deps')

    def newest(pat):
        fs = glob.glob(os.path.join(deps, pat))
        if not fs:
            raise Broken("no IR file " + pat)
        return max(fs, key=os.path.getmtime)
    return dict(ll=[newest('drv-*.ll'), newest('sodg-*.ll')], deps=deps, replay=os.path.join(tdir, sub, 'replay'),
                seconds=time.time() - t0, profile=profile)


def build_asan_replay():
    """the replay binary under AddressSanitizer (nightly, -Zbuild-std, same dev-like profile): used to
    confirm memory errors, which a plain native run cannot show"""
    tdir = os.path.join(BUILD, 'asan')
    env = dict(os.environ, CARGO_TARGET_DIR=tdir, RUSTFLAGS='-Zsanitizer=address', CARGO_NET_OFFLINE='true')
    env.pop('RUSTUP_TOOLCHAIN', None)
    r = sh(['cargo', '+nightly', 'build', '--release', '--offline', '-Zbuild-std=core,alloc,std,panic_abort',
            '--target', 'x86_64-unknown-linux-gnu', '--bin', 'replay'], cwd=DRV, env=env)
    if r.returncode != 0:
        raise Broken("ASan replay build failed:\n" + r.stderr[-2000:])
    return os.path.join(tdir, 'x86_64-unknown-linux-gnu', 'release', 'replay')


_MOD = {}


def module(ll):
    from . import ir
    key = tuple(ll)
    if key not in _MOD:
        m = ir.Module()
        for f in ll:
            m.load(f)
        _MOD[key] = m
    return _MOD[key]


# ------------------------------------------------------------------ tasks

class Task:
    def __init__(s, name, fn, **kw):
        s.name = name
        s.fn = fn          # "module:function"
        s.kw = kw


class _TaskTimeout(Exception):
    pass


def _run_task(arg):
    ll, task_name, fn, kw = arg
    t0 = time.time()
    import signal

    def _alarm(sig, frm):
        raise _TaskTimeout()
    limit = int(os.environ.get('SEIR_TASK_TIMEOUT', '1500'))
    try:
        signal.signal(signal.SIGALRM, _alarm)
        signal.alarm(limit)
    except ValueError:
        pass
    res = dict(name=task_name, status='ok', paths=0, queries=0, solver_s=0.0, steps=0, covers={}, violations=[],
               samples=[], funcs=[], notes=[])
    try:
        import importlib
        modname, fname = fn.split(':')
        mod = importlib.import_module(modname)
        env = Env(ll, res)
        getattr(mod, fname)(env, **kw)
    except _TaskTimeout:
        res['status'] = 'inconclusive'
        res['error'] = "obligation did not finish within %d s" % limit
    except Exception as e:          # noqa
        from .vm import Inconclusive
        res['status'] = 'inconclusive'
        res['error'] = "%s: %s" % (type(e).__name__, e)
        if not isinstance(e, Inconclusive):
            res['error'] += "\n" + traceback.format_exc()[-1500:]
    try:
        signal.alarm(0)
    except Exception:
        pass
    res['wall_s'] = time.time() - t0
    return res


class Env:
    """what an obligation sees: worlds per configuration and a result record"""
    _worlds = {}

    def __init__(s, ll, res):
        s.ll = ll
        s.res = res

    def world(s, N, cap, **kw):
        from . import graph
        key = (tuple(s.ll), N, cap, tuple(sorted(kw.items())))
        w = Env._worlds.get(key)
        if w is None:
            w = graph.World(module(s.ll), N, cap, **kw)
            Env._worlds[key] = w
        s._stat0 = (w.vm.solver.queries, w.vm.solver.time, w.vm.stats['paths'], w.vm.stats['steps'])
        s._w = w
        return w

    def account(s, w, count=True):
        q0, t0, p0, s0 = s._stat0
        s.res['queries'] += w.vm.solver.queries - q0
        s.res['solver_s'] += w.vm.solver.time - t0
        if count:
            s.res['paths'] += w.vm.stats['paths'] - p0
            s.res['steps'] += w.vm.stats['steps'] - s0
        s.res['funcs'] = sorted(set(s.res['funcs']) | {f for f in w.vm.stats['funcs']})
        s.res['externs'] = sorted(w.vm.stats['ext_calls'])
        s.res['addr_dep'] = sorted(set(w.vm.stats.get('addr_dep', [])))
        s._stat0 = (w.vm.solver.queries, w.vm.solver.time, w.vm.stats['paths'], w.vm.stats['steps'])

    def cover(s, name, hit):
        """hit: bool or a thunk evaluated only while the witness is still missing"""
        if s.res['covers'].get(name):
            return
        if callable(hit):
            hit = hit()
        s.res['covers'][name] = bool(hit)

    def violation(s, **v):
        s.res['violations'].append(v)
        s.res['status'] = 'violation'

    def sample(s, x):
        if len(s.res['samples']) < 3:
            s.res['samples'].append(x)

    def note(s, x):
        s.res['notes'].append(x)


def run_tasks(ll, tasks, jobs=None, seed=0, budget_s=None):
    import random
    order = list(tasks)
    random.Random(seed).shuffle(order)
    # long tasks first if they say so
    order.sort(key=lambda t: -t.kw.get('_weight', 1))
    args = [(ll, t.name, t.fn, {k: v for k, v in t.kw.items() if not k.startswith('_')}) for t in order]
    jobs = jobs or min(int(os.environ.get('SEIR_JOBS', '16')), os.cpu_count() or 4, max(1, len(args)))
    results = []
    if jobs == 1 or len(args) == 1:
        for a in args:
            results.append(_run_task(a))
    else:
        ctx = mp.get_context('fork')
        with ctx.Pool(jobs, maxtasksperchild=8) as pool:
            for r in pool.imap_unordered(_run_task, args):
                results.append(r)
    results.sort(key=lambda r: r['name'])
    return results


# ------------------------------------------------------------------ known findings

def known_findings():
    path = os.path.join(VERIF, 'known_findings.txt')
    known, fixed = [], []
    if os.path.exists(path):
        for line in open(path):
            line = line.strip()
            if not line or line.startswith('#'):
                continue
            kind, rest = line.split(':', 1)
            fields = dict(f.split('=', 1) for f in rest.split() if '=' in f and f.split('=')[0] in ('property', 'key'))
            import re as _re
            text = _re.sub(r'^\s*(property=\S+\s+)?(key=\S+\s+)?', '', rest).strip()
            if kind == 'known':
                known.append(dict(property=fields.get('property'), key=fields.get('key'), text=text))
            elif kind == 'fixed':
                fixed.append(dict(property=fields.get('property'), text=text))
    return known, fixed


# ------------------------------------------------------------------ native replay

def native_replay(binary, job, timeout=60):
    """run the replay binary on a job; returns (lines, crashed, stderr)"""
    os.makedirs(os.path.join(VERIF, 'replays'), exist_ok=True)
    tmp = os.path.join(BUILD, 'job-%d-%s.json' % (os.getpid(), hashlib.sha1(json.dumps(job, sort_keys=True).encode()).hexdigest()[:10]))
    with open(tmp, 'w') as f:
        json.dump(job, f)
    try:
        r = sh([binary, tmp], timeout=timeout)
    finally:
        os.unlink(tmp)
    lines = []
    for ln in r.stdout.splitlines():
        try:
            lines.append(json.loads(ln))
        except ValueError:
            pass
    return lines, r.returncode != 0, r.stderr


def write_replay(prop, v):
    os.makedirs(os.path.join(VERIF, 'replays'), exist_ok=True)
    h = hashlib.sha1(json.dumps(v, sort_keys=True, default=str).encode()).hexdigest()[:10]
    path = os.path.join(VERIF, 'replays', '%s-%s.json' % (prop, h))
    with open(path, 'w') as f:
        json.dump(v, f, indent=1, default=str)
    return path


def write_evidence(prop, ev):
    os.makedirs(os.path.join(VERIF, 'evidence'), exist_ok=True)
    path = os.path.join(VERIF, 'evidence', prop + '.json')
    with open(path, 'w') as f:
        json.dump(ev, f, indent=1, default=str)
    return path
