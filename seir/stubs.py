"""Environment of the executed code: allocator, panics, LLVM intrinsics, libc
memory functions.  Every stub is part of the claim and is listed in evidence."""
import re
import z3

from .vm import (Terminal, Inconclusive, ForkOn, to_bv, to_bool, simp, signed, cells_to_val, val_to_cells,
                 merge_cells, cell_term, M64)

PANIC_PATTERNS = (
    r'4core9panicking', r'4core6option13unwrap_failed', r'4core6option13expect_failed', r'4core6result13unwrap_failed',
    r'slice5index\d+slice_\w*fail', r'5alloc5alloc18handle_alloc_error', r'5alloc7raw_vec12handle_error',
    r'5alloc7raw_vec17capacity_overflow', r'4core3str16slice_error_fail', r'4core4cell\d+panic_already',
    r'rust_begin_unwind', r'3std9panicking\d+begin_panic', r'len_mismatch_fail', r'lazy_lock14panic_poisoned',
    r'4core3num\d+from_\w+_radix_panic', r'3std9panicking\d+rust_panic',
)
_panic_re = re.compile('|'.join(PANIC_PATTERNS))


def location(vm, st, addr):
    """decode a core::panic::Location {file ptr, file len, line, col}"""
    try:
        p = cells_to_val(st.mem.read_cells(addr, 8))
        ln = cells_to_val(st.mem.read_cells(addr + 8, 8))
        line = cells_to_val(st.mem.read_cells(addr + 16, 4))
        col = cells_to_val(st.mem.read_cells(addr + 20, 4))
        if not all(isinstance(x, int) for x in (p, ln, line, col)) or ln > 400:
            return None
        f = bytes(st.mem.read_cells(p, ln)).decode('utf-8', 'replace').rstrip('\0')
        m = re.search(r'(src/[^/]+\.rs|[^/]+/src/.*)$', f)
        short = f
        mm = re.search(r'/([a-z_0-9]+-[0-9.]+)/(src/.*)$', f)
        if mm:
            short = mm.group(1) + '/' + mm.group(2)
        elif 'library/' in f:
            short = f[f.index('library/'):]
        return "%s:%d:%d" % (short, line, col)
    except Exception:
        return None


def h_panic(vm, st, name, argv, ins):
    loc = None
    for a in reversed(argv):
        if isinstance(a, int) and a > 0x1000:
            loc = location(vm, st, a)
            if loc:
                break
    short = demangle_short(name)
    raise Terminal('panic', "%s at %s" % (short, loc or '?'))


def demangle_short(name):
    parts = re.findall(r'(\d+)([A-Za-z_][A-Za-z_0-9.$]*)', name)
    out = []
    for n, s in parts:
        n = int(n)
        if len(s) >= n:
            out.append(s[:n])
    out = [p for p in out if not re.match(r'h[0-9a-f]{16}$', p)]
    return '::'.join(out[-3:]) if out else name[:60]


# ------------------------------------------------------------------ allocator

def _size_align(vm, st, size, align):
    size = vm.concretize(st, size)
    align = vm.concretize(st, align)
    return size, align


def h_alloc(vm, st, name, argv, ins):
    size, align = _size_align(vm, st, argv[0], argv[1])
    if size > (1 << 26):
        raise Inconclusive("allocation of %d bytes" % size)
    a = st.mem.alloc(size, align, 'heap', name='heap#%d' % len(st.mem.pages))
    return a.base


def h_alloc_zeroed(vm, st, name, argv, ins):
    size, align = _size_align(vm, st, argv[0], argv[1])
    if size > (1 << 26):
        raise Inconclusive("allocation of %d bytes" % size)
    a = st.mem.alloc(size, align, 'heap', name='heap#%d' % len(st.mem.pages), fill=0)
    return a.base


def h_dealloc(vm, st, name, argv, ins):
    p = argv[0]
    if not isinstance(p, int):
        p = z3.simplify(p)
        p = p.as_long() if z3.is_bv_value(p) else st.known.get(p.get_id(), p)
    if not isinstance(p, int):
        return _dealloc_sym(vm, st, p, argv[1], argv[2])
    size = vm.concretize(st, argv[1])
    align = vm.concretize(st, argv[2])
    a = st.mem.lookup(p)
    if a is not None and a.base == p and a.kind == 'heap' and a.live and vm.opts.get('check_dealloc_layout', True):
        if a.size != size:
            raise Terminal('memerr', "dealloc with size %d of an allocation of %d bytes" % (size, a.size))
        if a.align != align:
            raise Terminal('memerr', "dealloc with align %d of an allocation made with align %d" % (align, a.align))
    st.mem.free(p)
    return None


def _dealloc_sym(vm, st, p, size, align):
    """dealloc through a symbolic pointer, without forking: every block the pointer can denote is freed
    under the condition that the pointer denotes it"""
    vals = vm.values_of(st, p)
    some = False
    for v in vals:
        cond = p == z3.BitVecVal(v, 64)
        a = st.mem.lookup(v)
        ok = a is not None and a.base == v and a.kind == 'heap' and a.live
        if ok and vm.opts.get('check_dealloc_layout', True):
            sz_ok = (size == a.size) if isinstance(size, int) else (to_bv(size, 64) == a.size)
            if not (sz_ok is True) and (sz_ok is False or vm.feasible(st, z3.And(cond, z3.Not(sz_ok)))):
                if vm.feasible(st, cond):
                    raise Terminal('memerr', "dealloc with a size other than the %d bytes the allocation has" % a.size)
                continue
        if not ok:
            if vm.feasible(st, cond):
                raise Terminal('memerr', "free of %#x which is not a live heap allocation%s [symbolic pointer]" % (v, st.mem.describe(v)))
            continue
        st.mem.free_guarded(v, cond)
        some = True
    if not some:
        raise Terminal('infeasible')
    return None


def h_realloc(vm, st, name, argv, ins):
    p = vm.concretize(st, argv[0])
    osz = vm.concretize(st, argv[1])
    align = vm.concretize(st, argv[2])
    nsz = vm.concretize(st, argv[3])
    old = st.mem.lookup(p)
    if old is None or old.base != p or not old.live or old.kind != 'heap':
        raise Terminal('memerr', "realloc of a pointer that is not a live heap allocation: %#x" % p)
    if old.size != osz:
        raise Terminal('memerr', "realloc with size %d of an allocation of %d bytes" % (osz, old.size))
    new = st.mem.alloc(nsz, align, 'heap', name='heap#%d' % len(st.mem.pages))
    k = min(osz, nsz)
    new.cells[:k] = old.cells[:k]
    st.mem.free(p)
    return new.base


# ------------------------------------------------------------------ memory intrinsics

def _copy(vm, st, dst, src, n):
    if not isinstance(n, int):
        n = z3.simplify(to_bv(n, 64))
        n = n.as_long() if z3.is_bv_value(n) else n
    if not isinstance(n, int):
        k = st.known.get(n.get_id())
        if k is not None:
            n = k
    if not isinstance(n, int):
        return _copy_symlen(vm, st, dst, src, n)
    if n == 0:
        return
    if n > (1 << 22):
        raise Inconclusive("memcpy of %d bytes" % n)
    cells = vm.load_bytes(st, src, n)
    vm.store_bytes(st, dst, list(cells))


def _copy_symlen(vm, st, dst, src, n):
    """copy of a symbolic number of bytes without forking: byte k is copied iff k < n"""
    vals = vm.values_of(st, n, limit=70, exact=True)
    if not vals:
        raise Terminal('infeasible')
    if len(vals) == 1:
        st.known[n.get_id()] = vals[0]
        return _copy(vm, st, dst, src, vals[0])
    mx = vals[-1]
    if mx > 4096:
        raise Inconclusive("copy of a symbolic length up to %d" % mx)
    srcc = vm.load_bytes(st, src, mx)
    old = vm.load_bytes(st, dst, mx)
    out = list(old)
    lo = vals[0]
    out[:lo] = srcc[:lo]
    for hi in vals[1:]:
        g = z3.UGE(n, z3.BitVecVal(hi, 64))
        out[lo:hi] = merge_cells(g, srcc[lo:hi], old[lo:hi], st)
        lo = hi
    vm.store_bytes(st, dst, out)


def h_memcpy(vm, st, name, argv, ins):
    _copy(vm, st, argv[0], argv[1], argv[2])
    return argv[0] if not name.startswith('@llvm.') else None


def h_memset(vm, st, name, argv, ins):
    n = vm.concretize(st, argv[2])
    if n == 0:
        return argv[0] if not name.startswith('@llvm.') else None
    if n > (1 << 22):
        raise Inconclusive("memset of %d bytes" % n)
    b = argv[1]
    if isinstance(b, int):
        cells = [b & 255] * n
    else:
        t = z3.simplify(z3.Extract(7, 0, b)) if b.size() > 8 else b
        cells = [(t, 0)] * n
    vm.store_bytes(st, argv[0], cells)
    return argv[0] if not name.startswith('@llvm.') else None


def h_memcmp(vm, st, name, argv, ins):
    n = vm.concretize(st, argv[2])
    if n == 0:
        return 0
    a = vm.load_bytes(st, argv[0], n)
    b = vm.load_bytes(st, argv[1], n)
    if any(c is None for c in a) or any(c is None for c in b):
        raise Terminal('memerr', "memcmp reads uninitialised memory")
    if all(type(c) is int for c in a) and all(type(c) is int for c in b):
        ba = bytes(a); bb = bytes(b)
        return 0 if ba == bb else ((1 if ba > bb else -1) & 0xFFFFFFFF)
    res = z3.BitVecVal(0, 32)
    for ca, cb in reversed(list(zip(a, b))):
        ta = cell_term(ca); tb = cell_term(cb)
        res = z3.If(ta == tb, res, z3.If(z3.ULT(ta, tb), z3.BitVecVal(0xFFFFFFFF, 32), z3.BitVecVal(1, 32)))
    return simp(res)


def h_bcmp(vm, st, name, argv, ins):
    n = vm.concretize(st, argv[2])
    if n == 0:
        return 0
    a = vm.load_bytes(st, argv[0], n)
    b = vm.load_bytes(st, argv[1], n)
    if any(c is None for c in a) or any(c is None for c in b):
        raise Terminal('memerr', "bcmp reads uninitialised memory")
    if all(type(c) is int for c in a) and all(type(c) is int for c in b):
        return 0 if bytes(a) == bytes(b) else 1
    va = cells_to_val(a); vb = cells_to_val(b)
    return simp(z3.If(to_bv(va, 8 * n) == to_bv(vb, 8 * n), z3.BitVecVal(0, 32), z3.BitVecVal(1, 32)))


def h_strlen(vm, st, name, argv, ins):
    p = vm.concretize(st, argv[0])
    n = 0
    while True:
        c = st.mem.read_cells(p + n, 1)[0]
        if type(c) is not int:
            raise Inconclusive("strlen over symbolic bytes")
        if c == 0:
            return n
        n += 1


# ------------------------------------------------------------------ integer intrinsics

def _bits(name):
    m = re.search(r'\.i(\d+)$', name) or re.search(r'\.i(\d+)(?:\.|$)', name)
    return int(m.group(1))


def h_assume(vm, st, name, argv, ins):
    c = argv[0]
    if isinstance(c, int):
        if not c & 1 and vm.opts['check_assumes']:
            raise Terminal('memerr', "llvm.assume(false) reached (compiler assumption violated)")
        return None
    c = to_bool(c)
    if vm.opts['check_assumes']:
        if vm.feasible(st, z3.Not(c)):
            raise Terminal('memerr', "llvm.assume can be false (compiler assumption violated): %s" % str(z3.simplify(c))[:160])
    else:
        st.assume(c)
    return None


def h_nop(vm, st, name, argv, ins):
    return None


def h_expect(vm, st, name, argv, ins):
    return argv[0]


def h_with_overflow(vm, st, name, argv, ins):
    m = re.match(r'@llvm\.([us])(add|sub|mul)\.with\.overflow\.i(\d+)', name)
    sg, op, bits = m.group(1), m.group(2), int(m.group(3))
    x, y = argv
    M = (1 << bits) - 1
    if isinstance(x, int) and isinstance(y, int):
        if sg == 'u':
            r = {'add': x + y, 'sub': x - y, 'mul': x * y}[op]
            return (r & M, int(r < 0 or r > M))
        sx = signed(x, bits); sy = signed(y, bits)
        r = {'add': sx + sy, 'sub': sx - sy, 'mul': sx * sy}[op]
        return (r & M, int(r < -(1 << (bits - 1)) or r >= (1 << (bits - 1))))
    X = to_bv(x, bits); Y = to_bv(y, bits)
    if sg == 'u':
        if op == 'add':
            r = X + Y
            o = z3.ULT(r, X)
        elif op == 'sub':
            r = X - Y
            o = z3.ULT(X, Y)
        else:
            r = X * Y
            o = z3.Not(z3.BVMulNoOverflow(X, Y, False))
    else:
        if op == 'add':
            r = X + Y
            o = z3.Not(z3.And(z3.BVAddNoOverflow(X, Y, True), z3.BVAddNoUnderflow(X, Y)))
        elif op == 'sub':
            r = X - Y
            o = z3.Not(z3.And(z3.BVSubNoOverflow(X, Y), z3.BVSubNoUnderflow(X, Y, True)))
        else:
            r = X * Y
            o = z3.Not(z3.And(z3.BVMulNoOverflow(X, Y, True), z3.BVMulNoUnderflow(X, Y)))
    return (simp(r), simp(o))


def h_minmax(vm, st, name, argv, ins):
    m = re.match(r'@llvm\.([us])(max|min)\.i(\d+)', name)
    sg, k, bits = m.group(1), m.group(2), int(m.group(3))
    x, y = argv
    if isinstance(x, int) and isinstance(y, int):
        if sg == 'u':
            return max(x, y) if k == 'max' else min(x, y)
        sx = signed(x, bits); sy = signed(y, bits)
        return (max(sx, sy) if k == 'max' else min(sx, sy)) & ((1 << bits) - 1)
    X = to_bv(x, bits); Y = to_bv(y, bits)
    if sg == 'u':
        c = z3.UGT(X, Y) if k == 'max' else z3.ULT(X, Y)
    else:
        c = (X > Y) if k == 'max' else (X < Y)
    return simp(z3.If(c, X, Y))


def h_sat(vm, st, name, argv, ins):
    m = re.match(r'@llvm\.u(add|sub)\.sat\.i(\d+)', name)
    op, bits = m.group(1), int(m.group(2))
    x, y = argv
    M = (1 << bits) - 1
    if isinstance(x, int) and isinstance(y, int):
        return min(M, x + y) if op == 'add' else max(0, x - y)
    X = to_bv(x, bits); Y = to_bv(y, bits)
    if op == 'add':
        r = X + Y
        return simp(z3.If(z3.ULT(r, X), z3.BitVecVal(M, bits), r))
    return simp(z3.If(z3.ULT(X, Y), z3.BitVecVal(0, bits), X - Y))


def h_bitop(vm, st, name, argv, ins):
    m = re.match(r'@llvm\.(bitreverse|ctlz|cttz|bswap|ctpop|abs)\.i(\d+)', name)
    k, bits = m.group(1), int(m.group(2))
    x = argv[0]
    M = (1 << bits) - 1
    if isinstance(x, int):
        x &= M
        if k == 'bitreverse':
            return int(format(x, '0%db' % bits)[::-1], 2)
        if k == 'ctlz':
            return bits - x.bit_length()
        if k == 'cttz':
            return bits if x == 0 else (x & -x).bit_length() - 1
        if k == 'bswap':
            return int.from_bytes(x.to_bytes(bits // 8, 'little'), 'big')
        if k == 'ctpop':
            return bin(x).count('1')
        if k == 'abs':
            return abs(signed(x, bits)) & M
    X = to_bv(x, bits)
    if k == 'bswap':
        return simp(z3.Concat(*[z3.Extract(8 * i + 7, 8 * i, X) for i in range(bits // 8)]))
    if k == 'bitreverse':
        return simp(z3.Concat(*[z3.Extract(i, i, X) for i in range(bits)]))
    if k == 'ctpop':
        r = z3.BitVecVal(0, bits)
        for i in range(bits):
            r = r + z3.ZeroExt(bits - 1, z3.Extract(i, i, X))
        return simp(r)
    if k == 'ctlz':
        r = z3.BitVecVal(bits, bits)
        for i in range(bits):
            r = z3.If(z3.Extract(i, i, X) == 1, z3.BitVecVal(bits - 1 - i, bits), r)
        return simp(r)
    if k == 'cttz':
        r = z3.BitVecVal(bits, bits)
        for i in reversed(range(bits)):
            r = z3.If(z3.Extract(i, i, X) == 1, z3.BitVecVal(i, bits), r)
        return simp(r)
    if k == 'abs':
        return simp(z3.If(X < 0, -X, X))
    raise Inconclusive(name)


def h_fsh(vm, st, name, argv, ins):
    m = re.match(r'@llvm\.fsh([lr])\.i(\d+)', name)
    d, bits = m.group(1), int(m.group(2))
    x, y, sh = argv
    M = (1 << bits) - 1
    if all(isinstance(v, int) for v in argv):
        sh %= bits
        if d == 'l':
            return ((((x << bits) | y) << sh) >> bits) & M
        return (((x << bits) | y) >> sh) & M
    X = to_bv(x, bits); Y = to_bv(y, bits); S = z3.URem(to_bv(sh, bits), z3.BitVecVal(bits, bits))
    cat = z3.Concat(X, Y)
    S2 = z3.ZeroExt(bits, S)
    if d == 'l':
        return simp(z3.Extract(2 * bits - 1, bits, cat << S2))
    return simp(z3.Extract(bits - 1, 0, z3.LShR(cat, S2)))


def h_cmp3(vm, st, name, argv, ins):
    m = re.match(r'@llvm\.([us])cmp\.i(\d+)\.i(\d+)', name)
    sg, rb, bits = m.group(1), int(m.group(2)), int(m.group(3))
    x, y = argv
    M = (1 << rb) - 1
    if isinstance(x, int) and isinstance(y, int):
        if sg == 's':
            x = signed(x, bits); y = signed(y, bits)
        return (0 if x == y else (1 if x > y else M))
    X = to_bv(x, bits); Y = to_bv(y, bits)
    lt = z3.ULT(X, Y) if sg == 'u' else (X < Y)
    return simp(z3.If(X == Y, z3.BitVecVal(0, rb), z3.If(lt, z3.BitVecVal(M, rb), z3.BitVecVal(1, rb))))


def h_trap(vm, st, name, argv, ins):
    raise Terminal('abort', name)


def h_identity0(vm, st, name, argv, ins):
    return argv[0]


def h_is_constant(vm, st, name, argv, ins):
    return 0


def h_ptrmask(vm, st, name, argv, ins):
    return vm.binop('and', type('T', (), {'bits': 64})(), argv[0], argv[1], ())


def h_objectsize(vm, st, name, argv, ins):
    return M64


def h_unstable_shim(vm, st, name, argv, ins):
    return None


def h_abort(vm, st, name, argv, ins):
    raise Terminal('abort', demangle_short(name))


def h_load_relative(vm, st, name, argv, ins):
    p = vm.concretize(st, argv[0])
    off = vm.concretize(st, argv[1])
    v = cells_to_val(st.mem.read_cells((p + off) & M64, 4))
    if not isinstance(v, int):
        raise Inconclusive("symbolic relative pointer")
    return (p + signed(v, 32)) & M64


# ------------------------------------------------------------------ a tiny in-memory file system (C08, C09)
# st.files: path -> list of cells; st.fds: fd -> [path, position].  Clock: concrete, increasing.

def _cstr(vm, st, p):
    p = vm.concretize(st, p)
    out = bytearray()
    while True:
        c = st.mem.read_cells(p + len(out), 1)[0]
        if type(c) is not int:
            raise Inconclusive("symbolic path name")
        if c == 0:
            return out.decode('utf-8', 'replace')
        out.append(c)


def _errno(vm, st, val):
    a = vm.sym('@__verif_errno') if '@__verif_errno' in vm.gaddr else None
    if a is None:
        base = vm.fresh_base(4, 16)
        from .vm import Alloc, PAGE
        al = Alloc(base, 4, 'global', 0, 'errno', 0)
        vm.gpages[base >> PAGE] = al
        vm.gaddr['@__verif_errno'] = base
        a = base
    if val is not None:
        st.mem.write_cells(a, list(int(val).to_bytes(4, 'little')))
    return a


def h_errno_location(vm, st, name, argv, ins):
    return _errno(vm, st, None)


def h_open(vm, st, name, argv, ins):
    path = _cstr(vm, st, argv[0])
    flags = vm.concretize(st, argv[1]) & 0xFFFFFFFF
    if flags & 0x40:                      # O_CREAT
        if path not in st.files or flags & 0x200:
            st.files = dict(st.files); st.files[path] = []
    elif path not in st.files:
        _errno(vm, st, 2)                 # ENOENT
        return 0xFFFFFFFF
    elif flags & 0x200 and flags & 3:
        st.files = dict(st.files); st.files[path] = []
    fd = 3 + len(st.fds)
    st.fds = dict(st.fds); st.fds[fd] = [path, 0]
    return fd


def h_close(vm, st, name, argv, ins):
    return 0


def h_write(vm, st, name, argv, ins):
    fd = vm.concretize(st, argv[0]) & 0xFFFFFFFF
    n = vm.concretize(st, argv[2])
    if fd in (1, 2):
        return n
    if fd not in st.fds:
        _errno(vm, st, 9); return M64
    path, pos = st.fds[fd]
    cells = list(vm.load_bytes(st, argv[1], n)) if n else []
    f = list(st.files[path])
    f[pos:pos + n] = cells
    st.files = dict(st.files); st.files[path] = f
    st.fds = dict(st.fds); st.fds[fd] = [path, pos + n]
    return n


def h_read(vm, st, name, argv, ins):
    fd = vm.concretize(st, argv[0]) & 0xFFFFFFFF
    n = vm.concretize(st, argv[2])
    if fd not in st.fds:
        _errno(vm, st, 9); return M64
    path, pos = st.fds[fd]
    f = st.files[path]
    k = max(0, min(n, len(f) - pos))
    if k:
        vm.store_bytes(st, argv[1], list(f[pos:pos + k]))
    st.fds = dict(st.fds); st.fds[fd] = [path, pos + k]
    return k


def h_lseek(vm, st, name, argv, ins):
    fd = vm.concretize(st, argv[0]) & 0xFFFFFFFF
    off = signed(vm.concretize(st, argv[1]), 64)
    wh = vm.concretize(st, argv[2]) & 0xFFFFFFFF
    if fd not in st.fds:
        _errno(vm, st, 9); return M64
    path, pos = st.fds[fd]
    base = {0: 0, 1: pos, 2: len(st.files[path])}[wh]
    st.fds = dict(st.fds); st.fds[fd] = [path, base + off]
    return (base + off) & M64


def h_fstat(vm, st, name, argv, ins):
    fd = vm.concretize(st, argv[0]) & 0xFFFFFFFF
    if fd not in st.fds:
        _errno(vm, st, 9); return 0xFFFFFFFF
    path, pos = st.fds[fd]
    buf = [0] * 144
    buf[24:28] = list((0o100644).to_bytes(4, 'little'))           # st_mode: regular file
    buf[48:56] = list(len(st.files[path]).to_bytes(8, 'little'))   # st_size
    vm.store_bytes(st, argv[1], buf)
    return 0


def h_enosys(vm, st, name, argv, ins):
    _errno(vm, st, 38)
    return M64 if name in ('@syscall',) else 0xFFFFFFFF


_clock = [1000]


def h_clock_gettime(vm, st, name, argv, ins):
    _clock[0] += 1
    vm.store_bytes(st, argv[1], list((_clock[0]).to_bytes(8, 'little')) + list((0).to_bytes(8, 'little')))
    return 0


def h_fs_read(vm, st, name, argv, ins):
    """std::fs::read(path): the bytes of the in-memory file, optionally cut at a symbolic length
    (vm.opts['truncate'] = {path: length term}) -- the crash-during-write model of C09"""
    p = vm.concretize(st, argv[1]); n = vm.concretize(st, argv[2])
    path = bytes(st.mem.read_cells(p, n)).decode('utf-8', 'replace')
    if path not in st.files:
        raise Inconclusive("fs::read of a file that was never written: " + path)
    content = st.files[path]
    L = len(content)
    buf = st.mem.alloc(max(L, 1), 1, 'heap', name='file:' + path)
    buf.cells[:L] = list(content)
    if L == 0:
        buf.size = 0
    k = (vm.opts.get('truncate') or {}).get(path, L)
    outs = vm.run(st, '@fake_read', [argv[0], buf.base, k, L])
    if len(outs) != 1 or outs[0].kind != 'ret':
        raise Inconclusive("fake_read: %r" % (outs,))
    return ('switch!', outs[0].st)


def install(vm):
    E = vm.externs

    def add(pred, h, override=False):
        if isinstance(pred, str):
            p = pred
            pred = (lambda n, p=p: p in n)
        E.append((pred, h, override))

    add(lambda n: n.startswith('@llvm.memcpy') or n.startswith('@llvm.memmove') or n in ('@memcpy', '@memmove'), h_memcpy)
    add(lambda n: n.startswith('@llvm.memset') or n == '@memset', h_memset)
    add(lambda n: n.startswith(('@llvm.lifetime', '@llvm.experimental.noalias', '@llvm.dbg', '@llvm.donothing',
                                '@llvm.prefetch', '@llvm.invariant', '@llvm.sideeffect', '@llvm.stackrestore',
                                '@llvm.va_', '@llvm.pseudoprobe', '@llvm.fake.use')), h_nop)
    add(lambda n: n.startswith('@llvm.assume'), h_assume)
    add(lambda n: n.startswith('@llvm.expect'), h_expect)
    add(lambda n: re.match(r'@llvm\.[us](add|sub|mul)\.with\.overflow', n) is not None, h_with_overflow)
    add(lambda n: re.match(r'@llvm\.[us](max|min)\.i', n) is not None, h_minmax)
    add(lambda n: re.match(r'@llvm\.u(add|sub)\.sat\.i', n) is not None, h_sat)
    add(lambda n: re.match(r'@llvm\.(bitreverse|ctlz|cttz|bswap|ctpop|abs)\.i', n) is not None, h_bitop)
    add(lambda n: n.startswith('@llvm.fsh'), h_fsh)
    add(lambda n: re.match(r'@llvm\.[us]cmp\.i', n) is not None, h_cmp3)
    add(lambda n: n.startswith(('@llvm.trap', '@llvm.ubsantrap', '@llvm.debugtrap')), h_trap)
    add(lambda n: n.startswith('@llvm.threadlocal.address') or n.startswith('@llvm.launder') or n.startswith('@llvm.strip'), h_identity0)
    add(lambda n: n.startswith('@llvm.is.constant'), h_is_constant)
    add(lambda n: n.startswith('@llvm.ptrmask'), h_ptrmask)
    add(lambda n: n.startswith('@llvm.objectsize'), h_objectsize)
    add(lambda n: 'rust_no_alloc_shim_is_unstable' in n, h_unstable_shim)
    add(lambda n: '__rust_alloc_zeroed' in n, h_alloc_zeroed)
    add(lambda n: '__rust_alloc_error_handler' in n, h_panic)
    add(lambda n: '__rust_alloc' in n, h_alloc)
    add(lambda n: '__rust_dealloc' in n, h_dealloc)
    add(lambda n: '__rust_realloc' in n, h_realloc)
    add(lambda n: n == '@memcmp', h_memcmp)
    add(lambda n: n == '@bcmp', h_bcmp)
    add(lambda n: n == '@strlen', h_strlen)
    add(lambda n: n == '@getenv', lambda vm, st, name, argv, ins: 0)      # no environment variable is set
    add(lambda n: '3std2fs4read5inner' in n, h_fs_read, True)
    add(lambda n: n in ('@open64', '@open'), h_open)
    add(lambda n: n == '@close', h_close)
    add(lambda n: n == '@write', h_write)
    add(lambda n: n == '@read', h_read)
    add(lambda n: n in ('@lseek64', '@lseek'), h_lseek)
    add(lambda n: n in ('@fstat64', '@fstat'), h_fstat)
    add(lambda n: n in ('@statx', '@syscall'), h_enosys)
    def h_getrandom(vm, st, name, argv, ins):
        n = vm.concretize(st, argv[1])
        vm.store_bytes(st, argv[0], [vm.opts.get('hash_seed', 0x42) & 0xFF] * n)       # fixed hash keys (a task parameter): behaviour under other seeds is outside every claim
        return n
    add(lambda n: n == '@getrandom', h_getrandom)

    def h_pred(vm, st, name, argv, ins):
        # the predicate of slice_some: answered by the obligation (one solver variable per edge)
        f = vm.opts.get('pred')
        if f is None:
            raise Inconclusive("verif_pred called outside a slice obligation")
        return f(vm, st, *argv)
    add(lambda n: n == '@verif_pred', h_pred)
    # CPU feature detection (cpuid): no optional feature is reported, so memchr / aho-corasick keep to their baseline code
    add(lambda n: 'std_detect6detect5cache21detect_and_initialize' in n, lambda vm, st, name, argv, ins: 0, True)
    add(lambda n: n == '@dlsym', lambda vm, st, name, argv, ins: 0)
    add(lambda n: n in ('@fcntl', '@fcntl64', '@ioctl', '@poll', '@signal', '@sigaction', '@pthread_self'), lambda vm, st, name, argv, ins: 0)
    add(lambda n: n == '@__errno_location', h_errno_location)
    add(lambda n: n == '@clock_gettime', h_clock_gettime)
    add(lambda n: n in ('@abort', '@exit', '@_exit') or 'std7process5abort' in n or '3std3sys.*abort_internal' in n, h_abort)
    add(lambda n: _panic_re.search(n) is not None, h_panic, True)
    add(lambda n: n.startswith('@llvm.load.relative'), h_load_relative)
