"""C13: slice(v) / slice_some(v, p) executed on the build-std IR (HashSet of std with hashbrown, emap's
iterator, empty(), add(), bind() of the real crate).

The *edge structure* of the source graph (which vertex points at which) is fixed per task, so that the
two HashSets hash concrete ids (fixed hash keys; a second key set is a task parameter, it changes the
order in which `todo.drain()` hands out the work list).  Labels, data and -- for slice_some -- the
predicate are symbolic: `verif_pred`, the external symbol the driver's closure forwards every question
to, answers with one solver variable per source edge (labels of one vertex are pairwise distinct, so
this is every predicate over (from, to, label)).  The real code branches on the answers; every path
must return a graph whose present vertices are exactly the closure of v under accepted edges."""
import itertools

import z3

from . import graph as G
from .graph import NSLOT, U, STORED, TAKEN, EMPTY, inv
from .pgraph import Ctx
from .vm import to_bv, cells_to_val, Inconclusive, Terminal

LABS = ('alpha', 'greek', 'str')
LABS4 = ('alpha', 'greek', 'shared', 'str', 'distinct')


def label_kind_assume(st, L, lab):
    if lab == 'alpha':
        st.assume(L.kind == G.ALPHA)
    elif lab == 'greek':
        st.assume(L.kind == G.GREEK)
    elif lab == 'str':
        st.assume(L.kind == G.STR)
    # 'any': the variant stays symbolic


def decode_label(c, st, addr, when=None):
    """[(condition, variant, [8 words])] of the label at addr by running the driver's label_view.  when: the
    condition under which the slot is in use (an edge map merged at call level holds arbitrary bytes in a slot that
    is unused on some of the merged paths): the decoding is made, and is valid, under it"""
    vm = c.vm
    if when is not None:
        st = st.fork()
        st.assume(when)
    words = st.mem.alloc(64, 8, 'heap', name='scratch.words').base
    res = []
    for o in vm.run(st, '@label_view', [addr, words]):
        if o.kind != 'ret':
            raise Inconclusive("label_view: %r" % (o,))
        cond = z3.And(*o.st.pc[len(st.pc):]) if len(o.st.pc) > len(st.pc) else z3.BoolVal(True)
        v = o.value
        if not isinstance(v, int):
            v = vm.concretize(o.st, v)
        res.append((cond, v, [to_bv(cells_to_val(o.st.mem.read_cells(words + 8 * i, 8), o.st), 64) for i in range(8)]))
    return res


def words_are(kind, words, L):
    """the label (variant term/int `kind`, payload words) is the SymLabel L"""
    k = kind if not isinstance(kind, int) else z3.BitVecVal(kind, 32)
    if k.size() < 32:
        k = z3.ZeroExt(32 - k.size(), k)
    return z3.And(k == z3.ZeroExt(32 - L.kind.size(), L.kind),
                  z3.Implies(L.kind == G.GREEK, words[0] == z3.ZeroExt(32, L.c)),
                  z3.Implies(L.kind == G.ALPHA, words[0] == L.n),
                  z3.Implies(L.kind == G.STR, z3.And(*[words[i] == z3.ZeroExt(32, L.chars[i]) for i in range(8)])))


def label_is(dec, L):
    return z3.Or(*[z3.And(cond, words_are(v, ws, L)) for cond, v, ws in dec])


def setup_struct(env, N, cap, edges, present, lab, grouped=None, fixed_extra=None):
    """a graph whose edge structure is `edges` (targets per vertex), whose vertices in `present` are present
    (ungrouped unless `grouped` = {slot: [members]}); labels (of kind `lab`) and data symbolic"""
    fx = {}
    grouped = grouped or {}
    tag_of = {}
    for b, ms in grouped.items():
        for m in ms:
            tag_of[m] = b
    for i in range(cap):
        fx['tag%d' % i] = tag_of.get(i, 1) if i in present else 0
        fx['ne%d' % i] = len(edges[i])
        for j, t in enumerate(edges[i]):
            fx['t%d_%d' % (i, j)] = t
    for b in range(2, NSLOT):
        ms = grouped.get(b, [])
        fx['cnt%d' % b] = len(ms)
        for k, m in enumerate(ms):
            fx['m%d_%d' % (b, k)] = m
    fx.update(fixed_extra or {})
    if lab in ('shared', 'distinct'):
        # constant labels: 'shared' gives edge j of EVERY vertex the label Alpha(j) (the same label on different vertices),
        # 'distinct' a different one everywhere; code that hashes or orders labels then runs concretely
        for i in range(cap):
            for j in range(N):
                fx['lab%d_%d' % (i, j)] = {'a': j} if lab == 'shared' else ({'a': i * N + j} if (i + j) % 2 else {'g': 0x3B2 + i * N + j})
    c = Ctx(env, N, cap, fixed=fx)
    st = c.pre.fork()
    for i in range(cap):
        for j in range(N):
            label_kind_assume(st, c.y.ekey[i][j], lab)
    c.pre = st
    return c, st


def closure(cap, edges, v, P):
    """R[i]: i is reachable from v along accepted edges (P[u][j]: z3 Bool)"""
    R = [z3.BoolVal(i == v) for i in range(cap)]
    for _ in range(cap):
        R2 = list(R)
        for u in range(cap):
            for j, t in enumerate(edges[u]):
                if t < cap:
                    R2[t] = z3.Or(R2[t], z3.And(R[u], P[u][j]))
        R = [z3.simplify(x) for x in R2]
    return R


def view_of(c, st, out):
    w = c.w
    pr = w.scratch(st, 24 * 8, 'probe')
    st = w.call1(st, w.pfx + 'probe', out, pr).st
    PR = [w.rd(st, pr + 8 * i, 8) for i in range(24)]
    if not all(isinstance(x, int) for x in PR):
        raise Inconclusive("symbolic arena addresses")
    return st, w.view(PR), PR


def ob_slice(env, N, cap, edges, present, start, lab='alpha', which='slice_some', grouped=None, hash_seed=0x42):
    c, st = setup_struct(env, N, cap, edges, present, lab, grouped)
    w, y, vm = c.w, c.y, c.vm
    vm.opts['hash_seed'] = hash_seed
    out = w.scratch(st, w.gsize, 'out.slice')
    c.pre = st
    P = [[z3.Bool('p_%d_%d' % (u, j)) for j in range(len(edges[u]))] for u in range(cap)]
    asked = []

    def pred(vm_, s_, f, t, kind, wp):
        f = vm_.concretize(s_, f) if not isinstance(f, int) else f
        t = vm_.concretize(s_, t) if not isinstance(t, int) else t
        words = [to_bv(cells_to_val(s_.mem.read_cells(wp + 8 * i, 8), s_), 64) for i in range(8)]
        r = z3.Bool('p_other_%d' % len(asked))
        hit = False
        for j in reversed(range(len(edges[f]) if f < cap else 0)):
            if edges[f][j] != t:
                continue
            hit = True
            r = z3.If(words_are(kind, words, y.ekey[f][j]), P[f][j], r)
        asked.append((f, t, hit))
        return r
    vm.opts['pred'] = pred
    call = {'op': which, 'v': start, 'reject': lambda m: _reject_list(c, m, edges, P, which)}
    n = 0
    try:
        outs = vm.run(st, w.pfx + which, [w.g, start, out])
    finally:
        vm.opts['pred'] = None
    Pt = P if which == 'slice_some' else [[z3.BoolVal(True) for _ in e] for e in edges]
    R = closure(cap, edges, start, Pt)
    seen_sets = set()
    for o in outs:
        n += 1
        if o.kind != 'ret':
            _terminal(c, o, call, edges, P, which)
            continue
        s1 = o.st
        ok = o.value
        okb = ok if isinstance(ok, z3.BoolRef) else ((to_bv(ok, 8) & 1) == 1)
        if vm.feasible(s1, z3.Not(okb)):
            _report(c, vm.get_model(s1, z3.Not(okb)), ['slice:ok'], call, edges, P, which)
            continue
        s2, nw, PR = view_of(c, s1, out)
        cl = [('slice:capacity', z3.BoolVal(PR[21] >= cap))]
        Tn = [to_bv(nw.tag(s2, i), 64) for i in range(cap)]
        En = [to_bv(nw.elen(s2, i), 64) for i in range(cap)]
        cl.append(('slice:vertices', z3.And(*[(Tn[i] != 0) == R[i] for i in range(cap)])))
        kept, sound = [], []
        for u in range(cap):
            dec = [decode_label(c, s2, nw.a_ekey(u, k), z3.UGT(En[u], k)) if vm.feasible(s2, z3.UGT(En[u], k)) else None for k in range(N)]
            tg = [to_bv(nw.etgt(s2, u, k), 64) for k in range(N)]
            sound.append(z3.ULE(En[u], N))
            for j, t in enumerate(edges[u]):
                if t >= cap:
                    continue
                # every accepted edge between kept vertices is in the slice
                there = z3.Or(*[z3.And(z3.UGT(En[u], k), tg[k] == t, label_is(dec[k], y.ekey[u][j])) for k in range(N) if dec[k] is not None])
                kept.append(z3.Implies(z3.And(R[u], R[t], Pt[u][j]), there))
            for k in range(N):
                if dec[k] is None:
                    continue
                # no edge that the source lacks, and none from or to a vertex that was not kept
                src = z3.Or(*[z3.And(tg[k] == t, label_is(dec[k], y.ekey[u][j]), R[u], R[t] if t < cap else False) for j, t in enumerate(edges[u])])
                sound.append(z3.Implies(z3.UGT(En[u], k), src))
            # labels of one vertex stay distinct in the slice
            for k in range(N):
                for l in range(k + 1, N):
                    if dec[k] is None or dec[l] is None:
                        continue
                    same = z3.Or(*[z3.And(label_is(dec[k], y.ekey[u][j]), label_is(dec[l], y.ekey[u][j])) for j in range(len(edges[u]))])
                    sound.append(z3.Implies(z3.UGT(En[u], l), z3.Not(same)))
        cl.append(('slice:edges-kept', z3.And(*kept) if kept else z3.BoolVal(True)))
        cl.append(('slice:edges-sound', z3.And(*sound)))
        # the new graph is a valid graph (C01-C03 keep holding for it)
        for nme, f in inv(nw, s2):
            cl.append(('slice:inv-' + nme, f))
        fr, nd = c.frame(s2, lambda key: False)
        cl += [('slice-pure:' + n_, f) for n_, f in fr]
        c.refute(s2, cl, call, lambda nme: ('C13',), extra_calls=())
        m = vm.get_model(s2)
        if m is not None:
            seen_sets.add(tuple(i for i in range(cap) if z3.is_true(m.eval(R[i], model_completion=True))))
    env.cover('slice returned', n >= 1)
    if which == 'slice_some' and sum(len(e) for i, e in enumerate(edges) if i in present) >= 1 and any(t != start for t in edges[start]):
        env.cover('paths with different kept sets (the predicate matters)', len(seen_sets) >= 2)
    env.sample({'op': which, 'N': N, 'cap': cap, 'edges (targets per vertex)': edges, 'present': sorted(present), 'start': start, 'labels': lab,
                'paths': n, 'kept sets seen': sorted(seen_sets), 'predicate questions': len(asked), 'hash keys': hex(hash_seed)})
    env.account(w)


def _reject_list(c, model, edges, P, which):
    if which != 'slice_some':
        return []
    out = []
    for u in range(c.cap):
        for j, t in enumerate(edges[u]):
            if not z3.is_true(model.eval(P[u][j], model_completion=True)):
                out.append([u, t, c.y.ekey[u][j].concrete(model)])
    return out


def _report(c, model, failing, call, edges, P, which):
    cc = c.concrete_call(call, model)
    job = {'n': c.N, 'cap': c.cap, 'pre': c.y.concrete(model), 'calls': [cc]}
    c.env.violation(kind='clause', clauses=failing, props=['C13'], call=cc, job=job)


def _terminal(c, o, call, edges, P, which):
    model = c.vm.get_model(o.st)
    if model is None:
        return
    cc = c.concrete_call(call, model)
    job = {'n': c.N, 'cap': c.cap, 'pre': c.y.concrete(model), 'calls': [cc]}
    c.env.violation(kind=o.kind, clauses=['slice:returns'], props=['C13'], call=cc, job=job, detail=o.detail)


# ------------------------------------------------------------------ structures

def structures(cap, N, quick):
    """edge structures (targets per vertex, no self loops -- bind() needs distinct endpoints) up to
    relabelling of the non-start vertices is NOT exploited: ids matter (the slice keeps them)"""
    opts = []
    for i in range(cap):
        others = [t for t in range(cap) if t != i]
        o = [[]]
        for k in range(1, N + 1):
            o += [list(p) for p in itertools.product(others, repeat=k)]
        opts.append(o)
    return [list(e) for e in itertools.product(*opts)]


CURATED3 = [
    [[1], [2], []],            # chain
    [[1], [2], [0]],           # 3-cycle
    [[1, 2], [2], [0]],        # cycle with a shared target
    [[1], [0], []],            # two-cycle, vertex 2 unreachable
    [[1, 2], [], []],          # fan-out
    [[], [0, 2], [1]],         # fan-in / start with no edges
    [[1, 1], [], [0]],         # two labels to one target
    [[1, 2], [2, 0], [0, 1]],  # complete
    [[2], [2], [1]],           # rejected on one path, accepted on another
    [[], [], []],
]
CURATED4 = [
    [[1, 2], [3], [3], []],          # diamond
    [[1, 2], [3], [3], [0]],         # diamond closed into a cycle
    [[1], [2], [3], [1]],            # lasso
    [[1, 3], [2], [1], []],          # inner two-cycle
    [[2, 1], [0, 3], [3], [2]],
]


def tasks(tier):
    from .harness import Task
    ts = []

    def add(N, cap, e, start, lab, which, seed=0x42, grouped=None, present=None):
        present = list(range(cap)) if present is None else present
        nm = "%s(%d) N=%d cap=%d edges=%s present=%s labels=%s keys=%x%s" % (which, start, N, cap, e, present, lab, seed, (' grouped=%s' % grouped) if grouped else '')
        ts.append(Task(nm, 'seir.pslice:ob_slice', N=N, cap=cap, edges=e, present=present, start=start, lab=lab, which=which, hash_seed=seed,
                       grouped=grouped, _weight=sum(len(x) for x in e) * 5 + cap))
    labs = LABS
    k = 0
    import random
    rnd = random.Random(13)
    all3 = structures(3, 2, False)
    all4 = structures(4, 2, False)
    if tier == 'quick':
        for e in CURATED3:
            for start in range(3):
                add(2, 3, e, start, labs[k % 3], 'slice_some', seed=(0x42, 0x17)[k % 2]); k += 1
            add(2, 3, e, k % 3, labs[k % 3], 'slice'); k += 1
        for e in CURATED4:
            add(2, 4, e, 0, labs[k % 3], 'slice_some'); k += 1
            add(2, 4, e, 1 + k % 3, labs[k % 3], 'slice_some', seed=0x17); k += 1
        for e in all3:          # every edge structure of three vertices with up to two edges each, one start vertex each
            if e in CURATED3:
                continue
            add(2, 3, e, k % 3, LABS4[k % 5], 'slice_some', seed=(0x42, 0x17)[k % 2]); k += 1
        for e in rnd.sample(all4, 40):
            add(2, 4, e, k % 4, LABS4[k % 5], 'slice_some', seed=(0x42, 0x17)[k % 2]); k += 1
        for e in CURATED3 + CURATED4:       # constant labels, the same on different vertices
            add(2, len(e), e, 0, 'shared', 'slice_some'); k += 1
            add(2, len(e), e, 1, 'shared', 'slice_some', seed=0x17); k += 1
    else:
        for e in all3:
            for start in range(3):
                add(2, 3, e, start, LABS4[k % 5], 'slice_some', seed=(0x42, 0x17, 0x99)[k % 3]); k += 1
            add(2, 3, e, k % 3, labs[k % 3], 'slice'); k += 1
        for e in CURATED4:
            for start in range(4):
                for lab in labs + ('any',):
                    add(2, 4, e, start, lab, 'slice_some', seed=(0x42, 0x17)[k % 2]); k += 1
                add(2, 4, e, start, 'alpha', 'slice')
        # structures of four vertices: 2^(number of edges) predicate outcomes, each a path with its own proof; 300 drawn
        # (any-kind labels only on those with at most four edges); N=3: 40 structures with at most six edges
        for e in rnd.sample(all4, 300):
            ne = sum(len(x) for x in e)
            lab = (labs + ('any',))[k % 4]
            if lab == 'any' and ne > 4:
                lab = LABS4[k % 5]
            add(2, 4, e, k % 4, lab, 'slice_some', seed=(0x42, 0x17, 0x99)[k % 3]); k += 1
        n3 = [e for e in rnd.sample(structures(3, 3, False), 400) if sum(len(x) for x in e) <= 6][:40]
        for e in n3:
            add(3, 3, e, k % 3, labs[k % 3], 'slice_some'); k += 1
    # the source's own group structure and an absent, stale, unreachable slot do not matter
    add(2, 3, [[1], [2], []], 0, 'alpha', 'slice_some', grouped={2: [0, 1]})
    add(2, 3, [[1], [], [0]], 0, 'greek', 'slice_some', present=[0, 1])
    add(2, 3, [[1, 2], [2], [0]], 1, 'any', 'slice_some')
    return ts


def judge_slice(job, lines, crashed, stderr=''):
    """native judgement: the slice's present set is the closure under accepted edges, its edges are
    source edges between kept vertices and contain every accepted one; the source is unchanged"""
    out = []
    c0 = job['calls'][0]
    if len(lines) < 2:
        m = [l for l in stderr.splitlines() if 'panicked' in l]
        return ["%s did not return: %s" % (c0['op'], (m[-1] if m else stderr[-200:]).strip())], {}
    src = lines[0]['snap']
    ret = lines[1]['ret']
    if not ret.get('ok'):
        return ["%s returned an error: %s" % (c0['op'], ret.get('error'))], {}
    if lines[1]['snap'] != src:
        out.append("the source graph changed")
    vs = src['vertices']
    key = lambda l: tuple(sorted((k, tuple(v) if isinstance(v, list) else v) for k, v in l.items()))
    rej = {(a, b, key(l)) for a, b, l in c0.get('reject', [])} if c0['op'] == 'slice_some' else set()
    acc = lambda u, l, t: (u, t, key(l)) not in rej
    R, todo = set(), [c0['v']]
    while todo:
        u = todo.pop()
        if u in R:
            continue
        R.add(u)
        if u < len(vs) and vs[u] is not None:
            todo += [t for l, t in vs[u]['edges'] if acc(u, l, t)]
    sl = ret['slice']['vertices']
    got = {i for i, x in enumerate(sl) if x is not None and x['branch'] != 0}
    if got != R:
        out.append("%s(%d) keeps the vertices %r, reachable along accepted edges are %r" % (c0['op'], c0['v'], sorted(got), sorted(R)))
    for u in sorted(got & R):
        se = {(key(l), t) for l, t in vs[u]['edges']}
        ne = [(key(l), t) for l, t in sl[u]['edges']]
        if len(set(ne)) != len(ne) or not set(ne) <= {(l, t) for l, t in se if t in R}:
            out.append("vertex %d of the slice has an edge the source lacks (or to a vertex not kept): %r" % (u, sl[u]['edges']))
        miss = [(l, t) for l, t in vs[u]['edges'] if t in R and acc(u, l, t) and (key(l), t) not in set(ne)]
        if miss:
            out.append("vertex %d of the slice lacks the accepted edge(s) %r" % (u, miss))
    return out, {}
