#!/bin/bash
# Build everything the checks need, offline, from files on disk. Safe to re-run.
set -e
cd "$(dirname "$0")"
export CARGO_NET_OFFLINE=true
mkdir -p .build evidence replays
[ -f drv/Cargo.lock ] || cp /repo/Cargo.lock drv/Cargo.lock
( cd drv && CARGO_TARGET_DIR=/verif/.build/drv RUSTFLAGS="--emit=llvm-ir -C no-vectorize-loops -C no-vectorize-slp" cargo build --release --offline 2>&1 | tail -2 )
for s in tools/setup_*.sh; do [ -x "$s" ] && "$s"; done
python3-vt -c "import z3; print('z3', z3.get_version_string())"
echo setup done
