VERIFICATION RESULT:
 ** 4 of 250 failed (4 unreachable)

 ** 4 of 4 cover properties satisfied

Failed Checks: "RangeToInclusive {:?} out of bounds (len = {})", index, *len
 File: "/repo/src/hex.rs", line 154, in sodg::hex::<impl std::ops::Index<std::ops::RangeToInclusive<usize>> for sodg::Hex>::index
Failed Checks: "RETURNED-WITHOUT-PANIC"
 File: "src/lib.rs", line 220, in c15_range_to_inclusive_panics
Failed Checks: This is a placeholder message; Kani doesn't support message formatted at runtime
 File: "/home/runner/.rustup/toolchains/nightly-2026-08-21-x86_64-unknown-linux-gnu/lib/rustlib/src/rust/library/core/src/slice/index.rs", line 69, in core::slice::index::slice_index_fail::do_panic::runtime
Failed Checks: This is a placeholder message; Kani doesn't support message formatted at runtime
 File: "/home/runner/.rustup/toolchains/nightly-2026-08-21-x86_64-unknown-linux-gnu/lib/rustlib/src/rust/library/core/src/slice/index.rs", line 50, in core::slice::index::slice_index_fail::do_panic::runtime

VERIFICATION:- FAILED
Verification Time: 2.2877307s