#[test]
fn kani_concrete_playback_c16_concat_outside_known_region_12059349703463358159() {
    let concrete_vals: Vec<Vec<u8>> = vec![
        // 255
        vec![255],
        // 255
        vec![255],
        // 255
        vec![255],
        // 255
        vec![255],
        // 255
        vec![255],
        // 255
        vec![255],
        // 255
        vec![255],
        // 255
        vec![255],
        // 255
        vec![255],
        // 255
        vec![255],
        // 8ul
        vec![8, 0, 0, 0, 0, 0, 0, 0],
        // 1
        vec![1],
        // 255
        vec![255],
        // 255
        vec![255],
        // 255
        vec![255],
        // 255
        vec![255],
        // 255
        vec![255],
        // 255
        vec![255],
        // 255
        vec![255],
        // 255
        vec![255],
        // 252
        vec![252],
        // 255
        vec![255],
        // 255
        vec![255],
        // 255
        vec![255],
        // 255
        vec![255],
        // 127
        vec![127],
        // 255
        vec![255],
        // 255
        vec![255],
        // 255
        vec![255],
        // 255
        vec![255],
        // 8ul
        vec![8, 0, 0, 0, 0, 0, 0, 0],
        // 1
        vec![1],
        // 255
        vec![255],
        // 255
        vec![255],
        // 255
        vec![255],
        // 255
        vec![255],
        // 255
        vec![255],
        // 255
        vec![255],
        // 255
        vec![255],
        // 255
        vec![255],
    ];
    kani::concrete_playback_run(concrete_vals, c16_concat_outside_known_region);
}

// native run:
//     |
// 358 | fn kani_concrete_playback_c16_concat_outside_known_region_12059349703463358159() {
//     | -------------------------------------------------------------------------------- previous definition of the value `kani_concrete_playback_c16_concat_outside_known_region_12059349703463358159` here
// ...
// 540 | fn kani_concrete_playback_c16_concat_outside_known_region_12059349703463358159() {
//     | ^^^^^^^^^^^^^^^^^^^^^^^^^^^^^^^^^^^^^^^^^^^^^^^^^^^^^^^^^^^^^^^^^^^^^^^^^^^^^^^^ `kani_concrete_playback_c16_concat_outside_known_region_12059349703463358159` redefined here
//     |
//     = note: `kani_concrete_playback_c16_concat_outside_known_region_12059349703463358159` must be defined only once in the value namespace of this module
// 
// For more information about this error, try `rustc --explain E0428`.
// error: could not compile `hexk` (lib test) due to 1 previous error
// error: /root/.kani/kani-0.68.0/toolchain/bin/cargo exited with status exit status: 101