#[test]
fn kani_concrete_playback_c15_conversions_fail_unless_eight_bytes_10080122858379028025() {
    let concrete_vals: Vec<Vec<u8>> = vec![
        // 255
        vec![255],
        // 255
        vec![255],
        // 255
        vec![255],
        // 255
        vec![255],
        // 255
        vec![255],
        // 255
        vec![255],
        // 255
        vec![255],
        // 255
        vec![255],
        // 255
        vec![255],
        // 255
        vec![255],
        // 9ul
        vec![9, 0, 0, 0, 0, 0, 0, 0],
        // 1
        vec![1],
    ];
    kani::concrete_playback_run(concrete_vals, c15_conversions_fail_unless_eight_bytes);
}

// native run:
//     |
// 332 | fn kani_concrete_playback_c15_conversions_fail_unless_eight_bytes_10080122858379028025() {
//     | ---------------------------------------------------------------------------------------- previous definition of the value `kani_concrete_playback_c15_conversions_fail_unless_eight_bytes_10080122858379028025` here
// ...
// 548 | fn kani_concrete_playback_c15_conversions_fail_unless_eight_bytes_10080122858379028025() {
//     | ^^^^^^^^^^^^^^^^^^^^^^^^^^^^^^^^^^^^^^^^^^^^^^^^^^^^^^^^^^^^^^^^^^^^^^^^^^^^^^^^^^^^^^^^ `kani_concrete_playback_c15_conversions_fail_unless_eight_bytes_10080122858379028025` redefined here
//     |
//     = note: `kani_concrete_playback_c15_conversions_fail_unless_eight_bytes_10080122858379028025` must be defined only once in the value namespace of this module
// 
// For more information about this error, try `rustc --explain E0428`.
// error: could not compile `hexk` (lib test) due to 1 previous error
// error: /root/.kani/kani-0.68.0/toolchain/bin/cargo exited with status exit status: 101