#[test]
fn kani_concrete_playback_c15_eq_depends_on_bytes_only_16954909425348420199() {
    let concrete_vals: Vec<Vec<u8>> = vec![
        // 160
        vec![160],
        // 128
        vec![128],
        // 254
        vec![254],
        // 254
        vec![254],
        // 254
        vec![254],
        // 254
        vec![254],
        // 254
        vec![254],
        // 254
        vec![254],
        // 254
        vec![254],
        // 255
        vec![255],
        // 160
        vec![160],
        // 128
        vec![128],
        // 255
        vec![255],
        // 255
        vec![255],
        // 255
        vec![255],
        // 255
        vec![255],
        // 255
        vec![255],
        // 255
        vec![255],
        // 255
        vec![255],
        // 255
        vec![255],
        // 2ul
        vec![2, 0, 0, 0, 0, 0, 0, 0],
        // 2ul
        vec![2, 0, 0, 0, 0, 0, 0, 0],
        // 1
        vec![1],
        // 255
        vec![255],
        // 255
        vec![255],
        // 31
        vec![31],
        // 0
        vec![0],
        // 0
        vec![0],
        // 0
        vec![0],
        // 69
        vec![69],
        // 0
        vec![0],
        // 1
        vec![1],
        // 255
        vec![255],
        // 255
        vec![255],
        // 63
        vec![63],
        // 0
        vec![0],
        // 0
        vec![0],
        // 0
        vec![0],
        // 3
        vec![3],
        // 0
        vec![0],
    ];
    kani::concrete_playback_run(concrete_vals, c15_eq_depends_on_bytes_only);
}

// native run:
//    9: <fn() -> core::result::Result<(), alloc::string::String> as core::ops::function::FnOnce<()>>::call_once
//              at /home/runner/.rustup/toolchains/nightly-2026-08-21-x86_64-unknown-linux-gnu/lib/rustlib/src/rust/library/core/src/ops/function.rs:250:5
// note: Some details are omitted, run with `RUST_BACKTRACE=full` for a verbose backtrace.
// 
// 
// failures:
//     kani_concrete_playback_c15_eq_depends_on_bytes_only_16954909425348420199
// 
// test result: FAILED. 0 passed; 1 failed; 0 ignored; 0 measured; 2 filtered out; finished in 0.85s
// 
// error: test failed, to rerun pass `--lib`
// error: /root/.kani/kani-0.68.0/toolchain/bin/cargo exited with status exit status: 101